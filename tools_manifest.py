#!/usr/bin/env python3
"""Regenerates /verif/MANIFEST.json (single source of truth for the check list)."""
import json, subprocess
TECH = "deterministic simulation with fault injection: real code on a simulator-owned tokio scheduler and virtual clock, seeded search over schedules and fault sequences, history oracles, minimised replay files"
NOTE_E1 = "Trusts the SimChild model of a process (kill is immediate, wait returns after death, signals delivered instantly), the vendored tokio (upstream 1.43.0 + pick-policy hook) and single-thread interleaving granularity (await points). Sampling: absence of a violation is evidence over the sampled scenario x schedule space, not proof."
NOTE_E2 = "Trusts the SimWatcher/SimFilterer/SimChild stubs (notify back-ends, the filesystem, OS signal delivery and stdin are outside the simulator; the pipeline from the notify callback / signal mapping onwards is real code), the vendored tokio and single-thread interleaving granularity. Sampling, not proof."
checks = []
def chk(pid, engine, text, note, ref, technique=TECH):
    checks.append({
      "property_id": pid,
      "quick_cmd": f"./wx check {pid} --tier quick",
      "thorough_cmd": f"./wx check {pid} --tier thorough",
      "evidence_file": f"/verif/evidence/{pid}.json",
      "replay_cmd_template": "./wx replay {path}",
      "engine": engine,
      "level_claimed": {"category": "exploration", "text": text, "design_ref": ref},
      "level_note": note,
      "technique": technique,
    })

CLAIMED = {}
def claim(pid, *a, **k):
    CLAIMED[pid] = (a, k)

claim("C04", "E1-jobsim",
 "Seeded search over control sequences x child behaviours x fault plans (spawn/kill/wait/signal errors, self-exits, dropped handles) x task schedules, running the real supervisor job task against a simulated child; a monitor over the recorded history asserts at every spawn that every earlier child of the job was reaped or dropped.",
 NOTE_E1, "DESIGN.md 4 C04")
claim("C06", "E1-jobsim",
 "Seeded search over graceful stop/restart/try-restart scenarios (all grace values incl. 0, unique signal per control for attribution, child reactions colliding with the grace deadline, controls of every priority queued behind) x schedules; history oracles: requested signal mapped to its OS number and sent at once, no kill inside the grace period, kill+reap exactly at expiry if still alive, normal-priority controls held back until the process ended, exact spawn count per control in settled scenarios.",
 NOTE_E1, "DESIGN.md 4 C06")
claim("C07", "E1-jobsim + E4-flagsim",
 "Two engines. (1) Seeded search as for C04 with 1-4 waiter tasks per ticket (clones and distinct tickets), injected spawn/kill/signal/wait failures and job termination by delete, delete_now or dropping the last handle; oracles: no waiter is left to the 1 h virtual watchdog (a hang has an exact meaning under a discrete-event clock), all waiters of a ticket resume at the same instant, a ticket resolves no later than its control's completion (graceful stop: min(process exit, signal + grace)), everything outstanding resolves when the job ends, error handler called once per injected failure. (2) The Flag under every Ticket (crates/supervisor/src/flag.rs, taken from /repo's working tree at build time with std::sync replaced by shuttle::sync) run by real threads under shuttle's seeded random and PCT schedulers, pre-empted at every mutex / atomic operation: waiters, cancelled polls, late clones, futures migrating between threads and 1-2 raisers; a lost wake-up is a deadlock, which the scheduler reports with a replayable schedule.",
 NOTE_E1 + " The thread engine trusts shuttle's sequentially consistent model of atomics (the Relaxed orderings in flag.rs are ordered by the Mutex around the waker list, which is modelled).", "DESIGN.md 4 C07, 10.3",
 technique="deterministic simulation with fault injection (tokio-level engine as for C04) plus controlled-scheduler thread simulation of the Flag primitive (shuttle: seeded random + PCT schedules, persisted failing schedule replays exactly)")
claim("C09", "E1-jobsim + reference model",
 "Refinement against an executable reference model written from the rustdoc: every control sequence up to a bound (quick: length <= 3, thorough: length <= 4) x {burst, settled} x 6 child classes x 6 fault plans (spawn, kill, signal, wait failures), then random sequences up to 30 controls; the real job task's child operations (with virtual instants), probe observations (current/previous state), spawn-hook and error-handler calls, ticket resolution instants and task end are compared observation by observation with the model on every tie-free scenario. Schedules are sampled.",
 NOTE_E1 + " The reference model itself (sim/src/model.rs, DESIGN.md appendix A) is trusted as the reading of the documentation.", "DESIGN.md 4 C09 + appendix A",
 technique="deterministic simulation compared step by step with an executable reference model of the documented API (refinement over recorded histories); bounded-exhaustive + seeded-random tie-free scenarios, seeded schedules")
claim("C10", "E1-jobsim",
 "Seeded search over mixes of normal (marker closures), high (to_wait) and urgent (delete_now) controls from 1-3 concurrent sender tasks, as atomic bursts and trickles, with and without an armed grace timer, under adversarial wake-up orders; oracles on marker execution order: per-sender FIFO, a resolved ticket implies every earlier same-sender control ran, nothing normal starts once delete_now is enqueued, to_wait overtakes a start sent in the same burst, nothing normal runs while a grace timer is armed.",
 NOTE_E1, "DESIGN.md 4 C10")

claim("C01", "E2-wxsim",
 "Seeded search over event streams from 1-4 concurrent producers (synthetic sends of every priority, empty events, signal and keyboard-EOF events built by the sources' own constructors, watcher-callback events through the real fs handler closure) x scripted filter verdicts x handler durations (sync/async) x event-queue sizes 1..4096 x throttle values x schedules; conservation oracle over the recorded history: every accepted event that passes (or is urgent or empty) is in exactly one batch, rejected/errored ones in none, no empty batch, filter called at most once and never for urgent/empty events, events refused by a full queue appear nowhere.",
 NOTE_E2, "DESIGN.md 4 C01")
claim("C02", "E2-wxsim",
 "Same engine with dedicated arrival patterns (single event, bursts inside a window, events exactly at / 1 ms around the window end, continuous accepted and rejected streams, urgent with empty and non-empty set, throttle 0, throttle changed mid-window) under a discrete-event clock, so all bounds are exact: delivery >= first receive + throttle, every passing event filtered between two deliveries is in the later batch, an urgent event flushes at the instant it is accepted (or the instant the worker becomes free), delivery <= first receive + throttle (no starvation).",
 NOTE_E2 + " Hook H1 makes throttle_collect read tokio's pausable clock.", "DESIGN.md 4 C02")
claim("C05", "E3-clisim",
 "The real CLI argument parser + normalisation and the real make_config action handler drive the real runtime and supervisor against simulated child processes; seeded search over argv (four on-busy modes, -r/--signal shorthands, --postpone, --stop-signal, --stop-timeout, --delay-run, --debounce) x child behaviours x change bursts placed before start, mid-run, at the instant of exit, during the grace period and back to back x schedules; oracles: runs never overlap, start-up run iff not postponed, the last change is followed by a run that started after it (restart/queue; other modes when idle), per-mode rules for changes delivered in a stable running period, global run/signal/kill counts.",
 "Trusts SimChild, the H4 signal injection, the replicated three start-up lines of run_watchexec(), the vendored tokio and single-thread interleaving granularity. Mode-timing rules are not asserted for runs with --delay-run (decisions queue behind one another) nor for batches that tie with a child transition. Sampling, not proof.", "DESIGN.md 4 C05")
claim("C08", "E2-wxsim + E3-clisim",
 "Seeded search over 0-3 jobs in every state at the moment of the quit (never started, running, finished, mid graceful stop/restart with an armed timer, deleted, queued time-consuming controls, handle clones held elsewhere, controls still arriving) x child reaction x process-group members x quit manner and grace x quit instant (incl. the action that created the job) x schedules; plus the CLI path (SIGINT / SIGTERM through the signal source into the real CLI handler). Oracles: main ends at the instant the handler returns (abort) or within remaining armed grace + queued work + quit grace + 2 ms (graceful); after runtime shutdown every spawned process is dead; group members are dead after a graceful quit of a grouped command; main returns Ok; the CLI sends the configured stop signal and force-kills at the stop timeout.",
 NOTE_E2 + " Process-group behaviour is modelled in the stub; only the presence of the KillOnDrop / ProcessGroup / ProcessSession wrappers on the spawned command is observed from the real code.", "DESIGN.md 4 C08")
claim("C13", "E2-wxsim",
 "Every sequence of <= 2 (thorough: <= 3) run-time configuration changes over 27 path sets (3-path universe x recursive/non-recursive) + 2 watcher kinds + keyboard/throttle/handler replacements from 3 initial configurations x {back-to-back, spaced}, then seeded-random longer sequences issued from an independent task, from inside the action handler, from inside the error handler and from a watcher call site (i.e. in the middle of the apply, at each individual watch/unwatch), with persistent and one-shot watch/unwatch failures, creation failures and an error queue of size 1; oracle at quiescence: registered set of the live SimWatcher == configured set (modes included), live watcher kind == configured kind, empty set => no live watcher, one runtime error per failed attempt, handler generations (invocation in progress keeps the old handler).",
 NOTE_E2 + " Hook H6 seeds the iteration order of the worker's registered-path set.", "DESIGN.md 4 C13")
claim("C15", "E2-wxsim",
 "C01 and C13 workloads with fault sequences: filter errors on chosen events, watch/unwatch failures, watcher-callback errors, event-queue overflow under a stalled handler, error bursts larger than the error queue; error-handler behaviours ignore / elevate k-th / critical k-th / replace itself / reconfigure. Oracles: exactly one handler call per filter or watch/unwatch error, at most one per callback-path error, conservation (C01) and convergence (C13) still hold for everything else, a probe event sent after the last fault is delivered within throttle + handler time, main ends with exactly the escalated critical error at the instant of escalation and no handler call follows.",
 NOTE_E2, "DESIGN.md 4 C15")

NA = {
 "C03":"pure function of (directory tree, ignore files, probe path): no schedule, clock, fault or interleaving in the statement; file loading is one sequential read. Not a simulation target.",
 "C11":"pure function of (patterns, event): no schedule, clock, fault or interleaving. Not a simulation target.",
 "C12":"pure function of (argv, environment, tree): universally quantified over flag combinations only; nothing for a simulator to schedule or fault.",
 "C14":"one sequential task walking a directory tree; the only environmental freedom is readdir order, for which no seam exists - permuting it would be input generation under another name.",
 "C16":"pure serialise/parse round trip over inputs; no concurrency, time or I/O faults in the statement.",
 "C17":"pure function of a batch of events; no concurrency, time or faults.",
 "C18":"pure function Command -> argv plus one real execve; the quantifier is over inputs and configurations only.",
 "C19":"finite conversion tables over inputs; enumeration, not simulation.",
 "C20":"pure function of a directory chain; no schedule, clock or fault.",
}
PENDING = {}  # filled by gen(): properties whose check is still under construction

def gen(active, pending):
    for pid in active:
        a, k = CLAIMED[pid]
        chk(pid, *a, **k)
    na = [{"property_id": k, "reason": v} for k, v in NA.items()]
    for pid, why in pending.items():
        na.append({"property_id": pid, "reason": why})
    hooks = subprocess.check_output(["git","-C","/repo","log","--format=%H %s"]).decode().splitlines()
    hook_commits = [l.split()[0] for l in hooks if " verif hook" in l][::-1]
    m = {
     "version": 1,
     "setup_cmd": "./wx setup",
     "hooks": {
       "guard": "--cfg watchexec_verif",
       "enable": "--cfg watchexec_verif via build.rustflags in /verif/sim/.cargo/config.toml (the harness workspace, whose path dependencies point at /repo/crates/*); ./wx unsets any inherited RUSTFLAGS so the guard never depends on the caller's environment",
       "baseline_off_cmd": "cd /repo && cargo nextest run --workspace --no-fail-fast --offline --test-threads 8 || cargo test --workspace --no-fail-fast --offline",
       "source_commits": hook_commits,
       "add_only": True
     },
     "engines": [
       {"name":"E1-jobsim","path":"/verif/sim/src/e1.rs","serves_properties":["C04","C06","C07","C09","C10"],"kind_free_text":"real watchexec-supervisor job task on a simulator-owned tokio current-thread scheduler with virtual time; SimChild behind the production child trait (hook H2)"},
       {"name":"E2-wxsim","path":"/verif/sim/src/e2.rs","serves_properties":["C01","C02","C08","C13","C15"],"kind_free_text":"full Watchexec runtime (action worker, fs/signal/keyboard sources, error hook, Config) with SimFilterer, SimWatcher (hook H3), H4 signal/keyboard injections, simulated producers and handlers"},
       {"name":"E4-flagsim","path":"/verif/flagsim/src/main.rs","serves_properties":["C07"],"kind_free_text":"crates/supervisor/src/flag.rs (source swapped onto shuttle::sync by a build script, otherwise unchanged) run by real threads under shuttle's seeded schedulers"},
       {"name":"E3-clisim","path":"/verif/sim/src/e3.rs","serves_properties":["C05","C08"],"kind_free_text":"E2 driven by the real CLI: argument parser (H5) and run_watchexec() as the main future (H8: make_config, CLI filterer, runtime creation, start-up event, main loop)"},
     ],
     "checks": checks,
     "not_applicable": na,
     "notes": "Deterministic simulation with fault injection; see DESIGN.md. known_findings.json lists genuine defects found (all currently fixed by 'fix:' commits in /repo).",
    }
    json.dump(m, open("/verif/MANIFEST.json","w"), indent=1)

if __name__ == "__main__":
    import sys
    active = ["C01","C02","C04","C05","C06","C07","C08","C09","C10","C13","C15"]
    gen(active, {})
