#!/usr/bin/env python3
"""Regenerates /verif/MANIFEST.json (single source of truth for the check list)."""
import json, subprocess
TECH = "deterministic simulation with fault injection: real code on a simulator-owned tokio scheduler and virtual clock, seeded search over schedules and fault sequences, history oracles, minimised replay files"
NOTE_E1 = "Trusts the SimChild model of a process (kill is immediate, wait returns after death, signals delivered instantly), the vendored tokio (upstream 1.43.0 + pick-policy hook) and single-thread interleaving granularity (await points). Sampling: absence of a violation is evidence over the sampled scenario x schedule space, not proof."
NOTE_E2 = "Trusts the SimWatcher/SimFilterer/SimChild stubs (notify back-ends, the filesystem, OS signal delivery and stdin are outside the simulator; the pipeline from the notify callback / signal mapping onwards is real code), the vendored tokio and single-thread interleaving granularity. Sampling, not proof."
checks = []
def chk(pid, engine, text, note, ref, technique=TECH):
    checks.append({
      "property_id": pid,
      "quick_cmd": f"./wx check {pid} --tier quick",
      "thorough_cmd": f"./wx check {pid} --tier thorough",
      "evidence_file": f"/verif/evidence/{pid}.json",
      "replay_cmd_template": "./wx replay {path}",
      "engine": engine,
      "level_claimed": {"category": "exploration", "text": text, "design_ref": ref},
      "level_note": note,
      "technique": technique,
    })

CLAIMED = {}
def claim(pid, *a, **k):
    CLAIMED[pid] = (a, k)

claim("C04", "E1-jobsim",
 "Seeded search over control sequences x child behaviours x fault plans (spawn/kill/wait/signal errors, self-exits, dropped handles) x task schedules, running the real supervisor job task against a simulated child; a monitor over the recorded history asserts at every spawn that every earlier child of the job was reaped or dropped.",
 NOTE_E1, "DESIGN.md 4 C04")
claim("C06", "E1-jobsim",
 "Seeded search over graceful stop/restart/try-restart scenarios (all grace values incl. 0, unique signal per control for attribution, child reactions colliding with the grace deadline, controls of every priority queued behind) x schedules; history oracles: requested signal mapped to its OS number and sent at once, no kill inside the grace period, kill+reap exactly at expiry if still alive, normal-priority controls held back until the process ended, exact spawn count per control in settled scenarios.",
 NOTE_E1, "DESIGN.md 4 C06")
claim("C07", "E1-jobsim",
 "Seeded search as for C04 with 1-4 waiter tasks per ticket (clones and distinct tickets), injected spawn/kill/signal/wait failures and job termination by delete, delete_now or dropping the last handle; oracles: no waiter is left to the 1 h virtual watchdog (a hang has an exact meaning under a discrete-event clock), all waiters of a ticket resume at the same instant, a ticket resolves no later than its control's completion (graceful stop: min(process exit, signal + grace)), everything outstanding resolves when the job ends, error handler called once per injected failure.",
 NOTE_E1, "DESIGN.md 4 C07")
claim("C09", "E1-jobsim + reference model",
 "Refinement against an executable reference model written from the rustdoc: every control sequence up to a bound (quick: length <= 3, thorough: length <= 4) x {burst, settled} x 6 child classes x 3 spawn-failure plans, then random sequences up to 30 controls; the real job task's child operations (with virtual instants), probe observations (current/previous state), spawn-hook and error-handler calls, ticket resolution instants and task end are compared observation by observation with the model on every tie-free scenario. Schedules are sampled.",
 NOTE_E1 + " The reference model itself (sim/src/model.rs, DESIGN.md appendix A) is trusted as the reading of the documentation.", "DESIGN.md 4 C09 + appendix A",
 technique="deterministic simulation compared step by step with an executable reference model of the documented API (refinement over recorded histories); bounded-exhaustive + seeded-random tie-free scenarios, seeded schedules")
claim("C10", "E1-jobsim",
 "Seeded search over mixes of normal (marker closures), high (to_wait) and urgent (delete_now) controls from 1-3 concurrent sender tasks, as atomic bursts and trickles, with and without an armed grace timer, under adversarial wake-up orders; oracles on marker execution order: per-sender FIFO, a resolved ticket implies every earlier same-sender control ran, nothing normal starts once delete_now is enqueued, to_wait overtakes a start sent in the same burst, nothing normal runs while a grace timer is armed.",
 NOTE_E1, "DESIGN.md 4 C10")

NA = {
 "C03":"pure function of (directory tree, ignore files, probe path): no schedule, clock, fault or interleaving in the statement; file loading is one sequential read. Not a simulation target.",
 "C11":"pure function of (patterns, event): no schedule, clock, fault or interleaving. Not a simulation target.",
 "C12":"pure function of (argv, environment, tree): universally quantified over flag combinations only; nothing for a simulator to schedule or fault.",
 "C14":"one sequential task walking a directory tree; the only environmental freedom is readdir order, for which no seam exists - permuting it would be input generation under another name.",
 "C16":"pure serialise/parse round trip over inputs; no concurrency, time or I/O faults in the statement.",
 "C17":"pure function of a batch of events; no concurrency, time or faults.",
 "C18":"pure function Command -> argv plus one real execve; the quantifier is over inputs and configurations only.",
 "C19":"finite conversion tables over inputs; enumeration, not simulation.",
 "C20":"pure function of a directory chain; no schedule, clock or fault.",
}
PENDING = {}  # filled by gen(): properties whose check is still under construction

def gen(active, pending):
    for pid in active:
        a, k = CLAIMED[pid]
        chk(pid, *a, **k)
    na = [{"property_id": k, "reason": v} for k, v in NA.items()]
    for pid, why in pending.items():
        na.append({"property_id": pid, "reason": why})
    hooks = subprocess.check_output(["git","-C","/repo","log","--format=%H %s"]).decode().splitlines()
    hook_commits = [l.split()[0] for l in hooks if " verif hook" in l][::-1]
    m = {
     "version": 1,
     "setup_cmd": "./wx setup",
     "hooks": {
       "guard": "--cfg watchexec_verif",
       "enable": "--cfg watchexec_verif via build.rustflags in /verif/sim/.cargo/config.toml (the harness workspace, whose path dependencies point at /repo/crates/*); ./wx unsets any inherited RUSTFLAGS so the guard never depends on the caller's environment",
       "baseline_off_cmd": "cd /repo && cargo nextest run --workspace --no-fail-fast --offline --test-threads 8 || cargo test --workspace --no-fail-fast --offline",
       "source_commits": hook_commits,
       "add_only": True
     },
     "engines": [
       {"name":"E1-jobsim","path":"/verif/sim/src/e1.rs","serves_properties":["C04","C06","C07","C09","C10"],"kind_free_text":"real watchexec-supervisor job task on a simulator-owned tokio current-thread scheduler with virtual time; SimChild behind the production child trait (hook H2)"},
       {"name":"E2-wxsim","path":"/verif/sim/src/e2.rs","serves_properties":["C01","C02","C08","C13","C15"],"kind_free_text":"full Watchexec runtime (action worker, fs/signal/keyboard sources, error hook, Config) with SimFilterer, SimWatcher (hook H3), H4 signal/keyboard injections, simulated producers and handlers"},
       {"name":"E3-clisim","path":"/verif/sim/src/e3.rs","serves_properties":["C05","C08"],"kind_free_text":"E2 driven by the real CLI argument parser and action handler (hook H5)"},
     ],
     "checks": checks,
     "not_applicable": na,
     "notes": "Deterministic simulation with fault injection; see DESIGN.md. known_findings.json lists genuine defects found (all currently fixed by 'fix:' commits in /repo).",
    }
    json.dump(m, open("/verif/MANIFEST.json","w"), indent=1)

if __name__ == "__main__":
    import sys
    active = ["C04","C06","C07","C09","C10"]
    pending = {p: "check under construction in this round (engine E2/E3 not yet committed); will be claimed when its check exists" for p in ["C01","C02","C05","C08","C13","C15"]}
    gen(active, pending)
