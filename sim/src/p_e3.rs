//! E3 property check: C05 (on-busy policy of the CLI), and the CLI part of C08 (interrupt /
//! terminate leads to the graceful shutdown).

use serde_json::{json, Value};

use crate::check::{Check, Stats, Tier, Violation};
use crate::child::{ChildSpec, SigReact};
use crate::ctx::{Ev, Policy, RunOut};
use crate::e1::{self, ChildRec};
use crate::e2::SIGNAL_ID_BASE;
use crate::e3::{self, sig_no, E3Kind, E3Scn, E3Step};
use crate::p_e1::oracle_c04;
use crate::rng::Rng;

pub fn e3_components() -> Value {
    json!({
        "real": [
            "watchexec-cli: Args parsing (clap) + the four normalise() steps, State, run_watchexec() as the runtime's main future (H8: make_config with the whole action handler incl. on-busy logic, quit escalation, signal forwarding, spawn hook; WatchexecFilterer::new and its check_event on every event; runtime creation; the start-up event; main())",
            "watchexec lib: Watchexec runtime, action worker + debounce, signal source's event constructor",
            "watchexec-supervisor: job task, control queue, timers, tickets",
            "tokio 1.43.0 (vendored; only run-queue pick and select! start branch decided by the simulator)"
        ],
        "stub": [
            "child processes (SimChild through hook H2)",
            "OS signal delivery (H4: the signal source's send_event is called directly), filesystem watcher (no paths watched: -w /dev/null; change events are queued as the fs source would)",
            "ignore-file discovery (--no-discover-ignore is always passed: discovery walks the real filesystem on the blocking pool)",
            "stderr of the CLI (pointed at /dev/null)",
            "wall clock (virtual)"
        ]
    })
}

#[derive(Debug)]
pub struct D3 {
    /// (t, seq, ids, end_t, end_seq)
    pub batches: Vec<(u64, u32, Vec<u32>, u64, u32)>,
    /// change events accepted: (id, t, seq)
    pub changes: Vec<(u32, u64, u32)>,
    pub children: Vec<ChildRec>,
    pub spawn_fails: usize,
    /// (t, seq) of every failed spawn attempt
    pub spawn_fail_at: Vec<(u64, u32)>,
    pub q: (u64, u32),
    pub main_end: Option<(u64, u32, bool, String)>,
    pub final_sent: Option<(u64, u32)>,
}

/// children as seen up to the quiescence point (what the final quit does to them is judged separately)
pub fn children_before_q(out: &RunOut) -> Vec<ChildRec> {
    let cut = out.hist.iter().position(|r| matches!(r.ev, Ev::Note { what: "quiescent", .. })).unwrap_or(out.hist.len());
    let pre = RunOut { hist: out.hist[..cut].to_vec(), choices: vec![], end_ms: out.end_ms, aborted: None };
    e1::digest(&pre).children
}

pub fn digest3(out: &RunOut) -> D3 {
    let ed = e1::digest(out);
    let mut d = D3 { batches: vec![], changes: vec![], children: ed.children, spawn_fails: ed.spawn_fails.len(), spawn_fail_at: ed.spawn_fails.iter().map(|f| (f.0, f.1)).collect(), q: (u64::MAX, u32::MAX), main_end: None, final_sent: None };
    let mut after_q = false;
    for r in &out.hist {
        match &r.ev {
            Ev::Batch { ids, .. } => d.batches.push((r.t, r.seq, ids.clone(), u64::MAX, u32::MAX)),
            Ev::BatchEnd { n } => {
                if let Some(b) = d.batches.get_mut(*n as usize) {
                    b.3 = r.t;
                    b.4 = r.seq;
                }
            }
            Ev::EvSent { id, ok: true } if *id < SIGNAL_ID_BASE && !after_q => d.changes.push((*id, r.t, r.seq)),
            Ev::EvSent { id, ok: true } if *id >= SIGNAL_ID_BASE && after_q => d.final_sent = Some((r.t, r.seq)),
            Ev::Note { what: "quiescent", .. } => {
                d.q = (r.t, r.seq);
                after_q = true;
            }
            Ev::MainEnd { ok, msg } => d.main_end = Some((r.t, r.seq, *ok, msg.clone())),
            _ => {}
        }
    }
    d
}

fn is_change_batch(ids: &[u32]) -> bool {
    ids.iter().any(|i| *i < SIGNAL_ID_BASE)
}

pub fn oracle_c05(scn: &E3Scn, d: &D3, out: &RunOut, stats: &mut Stats) -> Vec<Violation> {
    let mut vs = Vec::new();
    let mode = scn.effective_mode();
    let (qt, qseq) = d.q;
    let delay = scn.delay_run_ms.unwrap_or(0);
    let timeout = scn.stop_timeout_ms;
    stats.hit(match mode {
        "do-nothing" => "probe:mode-do-nothing",
        "queue" => "probe:mode-queue",
        "restart" => "probe:mode-restart",
        _ => "probe:mode-signal",
    });
    // (1) runs never overlap
    vs.extend(oracle_c04(out));
    let pre_children = children_before_q(out);
    let kids: Vec<(usize, &ChildRec)> = pre_children.iter().enumerate().filter(|(_, c)| c.spawn_seq > 0).collect();
    let pre: Vec<(usize, &ChildRec)> = kids.iter().copied().filter(|(_, c)| c.spawn_seq < qseq).collect();
    // (2) start-up run
    let first_spawn_seq = pre.first().map(|(_, c)| c.spawn_seq).unwrap_or(u32::MAX);
    if !scn.postpone && d.spawn_fail_at.iter().any(|f| f.1 < first_spawn_seq && f.1 < qseq) {
        // the start-up run was attempted and could not be spawned
        stats.hit("probe:startup-spawn-failed");
    } else if !scn.postpone {
        match pre.first() {
            // (every batch handled before the first start queues its own --delay-run)
            Some((_, c)) if c.spawn_t >= delay && c.spawn_t <= delay * d.batches.iter().filter(|b| b.1 < c.spawn_seq).count().max(1) as u64 => stats.hit("probe:startup-run"),
            Some((_, c)) => vs.push(Violation::new("startup-run-late", "", format!("not postponed: first run started at t={} (expected t={delay})", c.spawn_t))),
            None => vs.push(Violation::new("no-startup-run", "", "not postponed, but the command was never started".into())),
        }
    } else {
        stats.hit("probe:postponed");
        let first_change = d.changes.first().map(|c| c.2).unwrap_or(u32::MAX);
        if let Some((k, c)) = pre.first() {
            if c.spawn_seq < first_change {
                vs.push(Violation::new("run-before-first-change", "", format!("--postpone: child {k} spawned at t={} before any change was seen", c.spawn_t)));
            }
        }
    }
    // (5) global counts
    let change_batches: Vec<&(u64, u32, Vec<u32>, u64, u32)> = d.batches.iter().filter(|b| b.1 < qseq && is_change_batch(&b.2)).collect();
    let attempts = pre.len() + d.spawn_fails;
    if attempts > change_batches.len() {
        vs.push(Violation::new("more-runs-than-changes", mode, format!("{attempts} runs were started for {} batches of changes", change_batches.len())));
    }
    let stop_sig = scn.stop_sig_no();
    let busy_sig = scn.busy_sig_no();
    // signals sent to watchexec itself that the CLI passes on to the command
    // (--map-signal: passed on as the mapped signal, or discarded)
    let forwarded: Vec<i32> = scn.steps.iter().filter_map(|s| if let E3Kind::Signal { sig } = s.kind { scn.passed_on_as(sig) } else { None }).collect();
    if !scn.map_signals.is_empty() {
        stats.hit("probe:map-signal");
    }
    if !forwarded.is_empty() {
        stats.hit("probe:signal-forwarded-to-command");
    }
    for (k, c) in &pre {
        for s in c.signals.iter().filter(|s| s.1 < qseq) {
            let ok = forwarded.contains(&s.2)
                || match mode {
                    "signal" => s.2 == busy_sig,
                    "restart" => s.2 == stop_sig,
                    _ => false,
                };
            if !ok {
                vs.push(Violation::new("unexpected-signal", mode, format!("mode {mode}: child {k} received signal {} at t={}", s.2, s.0)));
            }
        }
        for kill in c.kills.iter().filter(|x| x.1 < qseq) {
            if mode != "restart" {
                vs.push(Violation::new("unexpected-kill", mode, format!("mode {mode}: child {k} was force-killed at t={}", kill.0)));
            }
        }
    }
    // helper: the child alive at instant t (spawned strictly before, not ended at or before)
    // (a death by signal or kill at instant t is the consequence of a control handled at t: the child was alive then)
    let alive_at = |t: u64| -> Vec<usize> { pre.iter().filter(|(_, c)| c.spawn_t < t && c.exit.map(|e| e.0 > t || (e.0 == t && e.1 >= 1000)).unwrap_or(true)).map(|(k, _)| *k).collect() };
    let transition_at = |t: u64| -> bool { kids.iter().any(|(_, c)| c.spawn_t == t || c.exit.map(|e| e.0 == t).unwrap_or(false) || c.reaped.map(|r| r.0 == t).unwrap_or(false)) };
    // (3) freshness
    if let Some(&(lid, lt, lseq)) = d.changes.last() {
        // (a spawn that fails is still the CLI starting the command: the attempt is what the change is owed)
        let run_after = pre.iter().any(|(_, c)| c.spawn_seq > lseq) || d.spawn_fail_at.iter().any(|f| f.1 > lseq && f.1 < qseq);
        let lbatch = d.batches.iter().find(|b| b.1 > lseq && b.2.contains(&lid));
        match mode {
            "restart" => {
                if !run_after {
                    vs.push(Violation::new("last-change-not-followed-by-run", mode, format!("restart mode: last change {lid} accepted at t={lt} (#{lseq}) but no run started after it")));
                }
            }
            "queue" => {
                // legitimate only while the run that was going on is still going on
                let still = pre.iter().any(|(_, c)| c.spawn_seq < lseq && c.exit.is_none());
                if !run_after && !still {
                    vs.push(Violation::new(
                        "last-change-not-followed-by-run",
                        mode,
                        format!("queue mode: last change {lid} accepted at t={lt} (#{lseq}); the run in progress has ended but no run started after the change"),
                    ));
                }
                if !run_after && still {
                    stats.hit("probe:queued-run-behind-endless-command");
                }
            }
            _ => {
                if let Some(b) = lbatch {
                    let td = b.0 + delay;
                    let idle_throughout = alive_at(b.0).is_empty() && alive_at(td).is_empty() && !kids.iter().any(|(_, c)| c.spawn_t >= b.0 && c.spawn_t <= td);
                    if idle_throughout && !transition_at(td) && !transition_at(b.0) && !run_after {
                        vs.push(Violation::new("idle-change-not-followed-by-run", mode, format!("mode {mode}: change {lid} was handled at t={td} with the command idle but no run followed")));
                    }
                }
            }
        }
    }
    // (4) mode rules for batches delivered in a stable running period
    // decision instants: every handled batch queues its --delay-run and then the running-state query on the job
    let mut dec: Vec<(u64, bool)> = Vec::new();
    for b in change_batches.iter() {
        let prev = dec.last().map(|d| d.0).unwrap_or(0);
        let queued = delay > 0 && prev > b.0;
        dec.push((b.0.max(if delay > 0 { prev } else { 0 }) + delay, queued));
    }
    // (4q) queue mode, with or without --delay-run: every run after the first has a cause. A batch of changes is decided
    // at dec(b) (the --delay-run sleeps and the state queries queue up on the job one behind the other). A decision
    // that finds the command idle starts it; one that finds run r going on starts it when the job task has seen run r
    // end ("waits until the command has finished, then starts it once more"). Either way the Start goes to the back
    // of the job's queue, behind the delays of batches handled in the meantime. A run that starts at any other
    // instant - e.g. at the end of a *later* run, because whoever waited for the end of run r was not told about it -
    // has no change to answer for it.
    if mode == "queue" && d.spawn_fails == 0 && pre.iter().all(|(_, c)| c.faults == 0) {
        // (e0, effect): the Start is queued at e0 and runs at `effect`, per batch
        let n = change_batches.len();
        let effect_of = |e0: u64| -> [u64; 2] {
            let strict = change_batches.iter().enumerate().filter(|(_, o)| o.0 < e0).map(|(j, _)| dec[j].0).max().unwrap_or(0);
            let incl = change_batches.iter().enumerate().filter(|(_, o)| o.0 <= e0).map(|(j, _)| dec[j].0).max().unwrap_or(0);
            [e0.max(strict), e0.max(incl)]
        };
        let mut eff: Vec<Vec<(u64, u64)>> = vec![Vec::new(); n];
        // a process started at the very instant of a decision was there *before* the decision only if the Start that
        // started it was queued no later than the deciding batch's own closures (the queue is first in, first out):
        // that needs another batch to answer for it. Iterated to a fixed point (the relation is monotone).
        for _round in 0..4 {
            for bi in 0..n {
                let (tb, td) = (change_batches[bi].0, dec[bi].0);
                let mut e0s: Vec<u64> = Vec::new();
                let mut strictly_running = false;
                for (_, c) in kids.iter() {
                    let reap_t = c.reaped.map(|r| r.0);
                    if c.spawn_t <= td && reap_t.map(|r| r >= td).unwrap_or(true) {
                        if c.spawn_t == td {
                            let by_other = (0..n).any(|o| o != bi && eff[o].iter().any(|(e0, at)| *at == td && *e0 <= tb));
                            if !by_other {
                                // ... unless the run the decision did find going on ended in this same instant (a forwarded
                                // signal handled right behind the decision): the task that waits for "the end of the current
                                // run" is a spawned task, and its to_wait() may reach the job only after the job task has gone
                                // on to collect that run and to start this one - it then waits for the end of *this* run
                                let found_ended_now = kids.iter().any(|(_, o)| o.spawn_t < td && o.reaped.map(|r| r.0 == td).unwrap_or(false));
                                if found_ended_now {
                                    if let Some(r) = reap_t {
                                        e0s.push(r);
                                    }
                                }
                                continue;
                            }
                        }
                        if let Some(r) = reap_t {
                            e0s.push(r);
                        }
                        if c.spawn_t < td && reap_t.map(|r| r > td).unwrap_or(true) {
                            strictly_running = true;
                        }
                    }
                }
                if !strictly_running {
                    e0s.push(td);
                }
                let mut v: Vec<(u64, u64)> = Vec::new();
                for e0 in e0s {
                    for at in effect_of(e0) {
                        v.push((e0, at));
                    }
                }
                v.sort();
                v.dedup();
                eff[bi] = v;
            }
        }
        let cands: Vec<u64> = eff.iter().flatten().map(|x| x.1).collect();
        for (k, c) in pre.iter().skip(1) {
            stats.hit("probe:queue-run-cause-judged");
            if !cands.contains(&c.spawn_t) {
                vs.push(Violation::new(
                    "queue-run-without-cause",
                    if delay > 0 { "delay-run" } else { "" },
                    format!("queue mode: child {k} was started at t={} - no batch of changes was decided then (decisions at {:?}), and none was waiting for a run that ended then", c.spawn_t, dec.iter().map(|x| x.0).collect::<Vec<_>>()),
                ));
            }
        }
    }
    for (bi, b) in change_batches.iter().enumerate() {
        let (tb, bseq) = (b.0, b.1);
        let (td, queued) = dec[bi];
        if queued || delay > 0 {
            // --delay-run is implemented by blocking the job's control queue: decisions and follow-ups then
            // queue behind one another; only the order-insensitive rules (1) (2) (3) (5) are asserted
            stats.hit("probe:delay-run-batch-not-timed");
            continue;
        }
        let next_b = change_batches.get(bi + 1).map(|n| n.1).unwrap_or(qseq);
        let alive = alive_at(tb);
        // a tie = a child transition at the delivery or decision instant that this batch did not cause itself:
        // a natural exit, or a spawn logged before the batch
        let tie = |t: u64| kids.iter().any(|(_, c)| (c.spawn_t == t && c.spawn_seq < bseq) || c.exit.map(|e| e.0 == t && e.1 < 1000).unwrap_or(false));
        if alive.len() != 1 || tie(tb) || tie(td) {
            stats.hit("probe:change-ties-with-child-transition-or-idle");
            continue;
        }
        let k = alive[0];
        let c = &pre_children[k];
        // the child is still alive at the decision instant and not already being stopped
        let alive_td = c.exit.map(|e| e.0 > td || (e.0 == td && e.1 >= 1000)).unwrap_or(true);
        // (a child that was sent a forwarded signal may be on its way out for reasons of its own: not timed)
        let being_stopped = c.signals.iter().any(|s| s.1 < bseq || forwarded.contains(&s.2)) || c.kills.iter().any(|x| x.1 < bseq);
        // other batches delivered inside [tb, td] make attribution ambiguous
        let crowded = change_batches.iter().any(|o| o.1 != bseq && o.0 >= tb && o.0 <= td);
        if !alive_td || being_stopped || crowded {
            continue;
        }
        stats.hit("probe:change-while-running-stable");
        match mode {
            "do-nothing" => {
                let end = c.exit.map(|e| e.0).unwrap_or(qt);
                if let Some((k2, n)) = pre.iter().find(|(_, n)| n.spawn_t >= td && n.spawn_t < end && n.spawn_seq > bseq) {
                    vs.push(Violation::new("do-nothing-started-a-run", "", format!("do-nothing: change at t={tb} while child {k} was running, yet child {k2} was spawned at t={}", n.spawn_t)));
                }
            }
            "signal" => {
                let sigs: Vec<_> = c.signals.iter().filter(|s| s.1 > bseq && s.1 < next_b && s.2 == busy_sig).collect();
                if sigs.len() != 1 || sigs[0].0 != td {
                    vs.push(Violation::new(
                        "signal-mode-wrong-signalling",
                        "",
                        format!("signal mode: change handled at t={td} while child {k} was running: expected exactly one signal {busy_sig} then, saw {:?}", sigs.iter().map(|s| (s.0, s.2)).collect::<Vec<_>>()),
                    ));
                }
            }
            "restart" => {
                let sig = c.signals.iter().find(|s| s.1 > bseq && s.2 == stop_sig);
                match sig {
                    Some(s) if s.0 == td && s.2 == stop_sig => {
                        let deadline = td + timeout;
                        let late = c.exit.map(|e| e.0 > deadline).unwrap_or(true);
                        if late {
                            vs.push(Violation::new("restart-no-kill-at-stop-timeout", "", format!("restart: child {k} signalled at t={td}, stop timeout {timeout} ms, still alive after t={deadline}")));
                        }
                        if let Some(kl) = c.kills.iter().find(|x| x.0 < deadline) {
                            vs.push(Violation::new("restart-killed-before-stop-timeout", "", format!("restart: child {k} signalled at t={td} but killed at t={} before the stop timeout {timeout} ms", kl.0)));
                        }
                        // exactly one fresh run right after the reap
                        if let Some((rt, _, _)) = c.reaped {
                            // the first run after the reap starts at that very instant
                            let rseq = c.reaped.map(|r| r.1).unwrap_or(0);
                            let next: Vec<_> = pre.iter().filter(|(_, n)| n.spawn_seq > rseq).take(1).collect();
                            if d.spawn_fails == 0 && (next.len() != 1 || next[0].1.spawn_t != rt) && rt < qt {
                                vs.push(Violation::new(
                                    "restart-wrong-respawn",
                                    "",
                                    format!("restart: child {k} ended at t={rt}: expected exactly one fresh run at that instant, saw {:?}", next.iter().map(|(k, n)| (*k, n.spawn_t)).collect::<Vec<_>>()),
                                ));
                            }
                            stats.hit("probe:restart-judged");
                        }
                    }
                    other => vs.push(Violation::new(
                        "restart-no-stop-signal",
                        "",
                        format!("restart: change handled at t={td} while child {k} was running: expected stop signal {stop_sig} at that instant, saw {:?}", other.map(|s| (s.0, s.2))),
                    )),
                }
            }
            _ => {
                // queue: exactly one further run at the instant the current one ends
                if let (Some((_, st)), Some((e, rseq, _))) = (c.exit, c.reaped) {
                    if st < 1000 && e < qt {
                        // (the end of the run as the job task observed it)
                        let at_end: Vec<_> = pre.iter().filter(|(_, n)| n.spawn_t == e && n.spawn_seq > rseq).collect();
                        // (another batch of changes delivered at that very instant finds the job between runs and may
                        // start a run of its own if the follow-up is already over by then, e.g. ended by a forwarded signal)
                        let others = change_batches.iter().filter(|o| o.1 != bseq && o.0 == e).count();
                        if (at_end.is_empty() || at_end.len() > 1 + others) && d.spawn_fails == 0 {
                            vs.push(Violation::new(
                                "queue-wrong-follow-up",
                                "",
                                format!("queue: change at t={tb} while child {k} was running; it ended at t={e}: expected exactly one further run then, saw {}", at_end.len()),
                            ));
                        }
                        stats.hit("probe:queue-judged");
                    }
                }
            }
        }
    }
    vs
}

/// CLI part of C08: an interrupt or terminate signal leads to the graceful shutdown with the
/// configured stop signal and timeout, and nothing survives.
pub fn oracle_cli_quit(scn: &E3Scn, d: &D3, out: &RunOut, stats: &mut Stats) -> Vec<Violation> {
    let mut vs = Vec::new();
    // nothing but the final interrupt / terminate asks watchexec to stop (mapped ones do not)
    if let Some((mt, mseq, _, msg)) = &d.main_end {
        if *mseq < d.q.1 {
            vs.push(Violation::new("main-ended-without-quit-signal", "cli", format!("main ended at t={mt} ({msg}) before any unmapped interrupt or terminate signal was sent")));
            return vs;
        }
    }
    let Some((ft, fseq)) = d.final_sent else { return vs };
    let stop_sig = scn.stop_sig_no();
    let timeout = scn.stop_timeout_ms;
    // the quit batch
    let qb = d.batches.iter().find(|b| b.1 > fseq && b.2.iter().any(|i| *i >= SIGNAL_ID_BASE));
    let Some(qb) = qb else {
        vs.push(Violation::new("quit-signal-not-delivered", "", format!("final signal sent at t={ft} never reached the action handler")));
        return vs;
    };
    let q = qb.0;
    stats.hit("probe:cli-quit");
    // --delay-run closures already queued on the job ahead of the quit's controls
    let pending_delay = scn.delay_run_ms.unwrap_or(0) * d.batches.iter().filter(|b| b.1 < qb.1 && is_change_batch(&b.2)).count() as u64;
    match &d.main_end {
        None => vs.push(Violation::new("quit-never-terminates", "cli", format!("signal {} at t={ft}: main never ended", scn.final_signal))),
        Some((mt, _, ok, msg)) => {
            if !*ok {
                vs.push(Violation::new("quit-returned-error", "cli", format!("main ended with {msg}")));
            }
            // remainder of a pending graceful restart + the quit's own grace (+ a pending delay-run)
            let mut rem = 0u64;
            for c in d.children.iter().filter(|c| c.spawn_seq > 0 && c.spawn_t <= q && c.exit.map(|e| e.0 > q).unwrap_or(true)) {
                if let Some(s) = c.signals.iter().find(|s| s.0 <= q && s.1 < qb.1) {
                    rem = rem.max((s.0 + timeout).saturating_sub(q));
                    stats.hit("probe:cli-quit-during-graceful-restart");
                }
            }
            // restart mode: every change handled before the quit may have queued its own graceful restart ahead of it
            let queued_restarts = if scn.effective_mode() == "restart" { d.batches.iter().filter(|b| b.1 < qb.1 && is_change_batch(&b.2)).count() as u64 } else { 0 };
            let rem = rem.max(queued_restarts * timeout);
            let bound = q + rem + timeout + pending_delay + 2;
            if *mt > bound {
                vs.push(Violation::new("graceful-quit-late", "cli", format!("signal handled at t={q}, stop timeout {timeout} ms, pending {rem} ms: bound t<={bound}, main ended at t={mt}")));
            }
        }
    }
    // the running child gets the configured stop signal at q (unless a graceful restart already holds the queue), and is killed at +timeout if it ignores it
    for (k, c) in d.children.iter().enumerate().filter(|(_, c)| c.spawn_seq > 0 && c.spawn_t < q && c.exit.map(|e| e.0 > q).unwrap_or(true)) {
        let pending = c.signals.iter().any(|s| s.1 < qb.1);
        if pending {
            continue;
        }
        if out.hist.iter().any(|r| r.t == q && matches!(r.ev, Ev::Spawn { .. } | Ev::Reaped { .. })) {
            continue; // tie with a child transition
        }
        stats.hit("probe:cli-quit-with-running-command");
        // the quit's own stop signal: the last one of the configured kind inside the window (earlier ones
        // may be busy-signals of changes whose --delay-run had not run out when the quit arrived)
        let sig_t = match c.signals.iter().filter(|s| s.1 > qb.1 && s.2 == stop_sig && s.0 >= q && s.0 <= q + pending_delay).last() {
            Some(s) => s.0,
            None => {
                // (the command may also have ended before the queued stop was reached)
                if c.exit.map(|e| e.0 <= q + pending_delay).unwrap_or(false) {
                    continue;
                }
                vs.push(Violation::new(
                    "quit-wrong-stop-signal",
                    "cli",
                    format!("child {k} running at the quit (t={q}): expected stop signal {stop_sig} by t={}, saw {:?}", q + pending_delay, c.signals.iter().filter(|s| s.1 > qb.1).map(|s| (s.0, s.2)).collect::<Vec<_>>()),
                ));
                continue;
            }
        };
        // with --delay-run closures still queued the observed signal may be an earlier change's busy-signal of the
        // same kind; the quit's own stop then comes no later than the end of those delays
        let deadline = if pending_delay > 0 { q + pending_delay + timeout } else { sig_t + timeout };
        if c.exit.map(|e| e.0 > deadline).unwrap_or(true) {
            vs.push(Violation::new("quit-no-kill-at-stop-timeout", "cli", format!("child {k} still alive after t={deadline} (stop timeout {timeout} ms after the quit at t={q})")));
        }
    }
    // the command is spawned with the wrappers the options ask for, and after the quit no member of a grouped command's
    // process group is left (a leader that ended by itself leaves its orphans beyond the supervisor's reach)
    let (want_group, want_session) = scn.expected_wrappers();
    for r in &out.hist {
        match &r.ev {
            Ev::Spawn { child, group, session, kill_on_drop, .. } => {
                if (*group, *session) != (want_group, want_session) || !*kill_on_drop {
                    vs.push(Violation::new(
                        "wrong-process-wrappers",
                        "cli",
                        format!("--wrap-process {:?}: child {child} spawned with group={group} session={session} kill_on_drop={kill_on_drop}", scn.wrap),
                    ));
                }
            }
            Ev::Note { what: "group-members-alive", a, b } => {
                stats.hit("probe:cli-grouped-command-with-grandchildren");
                let c = &d.children[*a as usize];
                let alive_at_q = c.spawn_t <= q && c.exit.map(|e| e.0 > q).unwrap_or(true);
                let natural = c.exit.map(|e| e.1 < 1000).unwrap_or(false);
                if *b > 0 && alive_at_q && !natural {
                    vs.push(Violation::new("group-members-survive-graceful-quit", "cli", format!("{b} other member(s) of child {a}'s process group were still alive after the quit")));
                }
            }
            Ev::Note { what: "ungrouped-members-alive", .. } => stats.hit("probe:cli-ungrouped-command-with-grandchildren"),
            _ => {}
        }
    }
    // nothing outlives the main task
    if let Some((mt, _, _, _)) = &d.main_end {
        for (k, c) in d.children.iter().enumerate() {
            if c.spawn_seq > 0 && c.spawn_t <= *mt && c.exit.map(|e| e.0 > *mt).unwrap_or(true) {
                vs.push(Violation::new("process-outlives-main", "cli", format!("child {k} was still alive when main ended at t={mt} (exit: {:?})", c.exit)));
            }
        }
    }
    // nothing survives
    let mut dead = std::collections::BTreeSet::new();
    let mut all = Vec::new();
    for r in &out.hist {
        match &r.ev {
            Ev::Spawn { child, .. } => all.push(*child),
            Ev::Exit { child, .. } => {
                dead.insert(*child);
            }
            _ => {}
        }
    }
    for c in all {
        if !dead.contains(&c) {
            vs.push(Violation::new("process-survives-shutdown", "cli", format!("child {c} still alive after main ended and the runtime was shut down")));
        }
    }
    vs
}

pub fn gen_cli(rng: &mut Rng) -> E3Scn {
    let mode = *rng.pick(&["do-nothing", "queue", "restart", "signal"]);
    let spelling = if (mode == "restart" || mode == "signal") && rng.chance(1, 2) {
        "short"
    } else {
        "long"
    };
    // `--on-busy-update=<other mode> --signal X`: the presence of --signal decides (signal mode)
    let overridden = mode != "signal" && spelling == "long" && rng.chance(1, 8);
    let names = ["HUP", "INT", "QUIT", "TERM", "USR1", "USR2"];
    let signal = if (mode == "signal" && (spelling == "short" || rng.chance(1, 2))) || overridden { Some(rng.pick(&names).to_string()) } else { None };
    let stop_signal = if rng.chance(1, 3) { Some(rng.pick(&names).to_string()) } else { None };
    let stop_timeout_ms = *rng.pick(&[0u64, 10, 100, 1000]);
    let delay_run_ms = if rng.chance(1, 4) { Some(*rng.pick(&[5u64, 50])) } else { None };
    let debounce_ms = *rng.pick(&[0u64, 10, 50]);
    let life = [5u64, 30, 100, 400, 2000];
    let n_children = rng.range(1, 4);
    let mut children = Vec::new();
    for _ in 0..n_children {
        let self_exit = if rng.chance(1, 4) { None } else { Some(*rng.pick(&life)) };
        let on_signal = match rng.below(4) {
            0 => SigReact::Ignore,
            1 => SigReact::Exit(*rng.pick(&[1u64, 10, 100])),
            _ => SigReact::Exit(0),
        };
        let mut c = ChildSpec { self_exit, code: rng.below(2) as i32, on_signal, ..Default::default() };
        // wait() on the command fails once: right after the spawn, or some time into the run
        match rng.below(16) {
            0 => c.fail_wait = true,
            1 => c.wait_fail_after = Some(*rng.pick(&[1u64, 20, 150])),
            _ => {}
        }
        children.push(c);
    }
    // (one in 25: a long session)
    let n = if rng.chance(1, 25) { rng.range(15, 45) } else { rng.range(0, 8) };
    let mut steps = Vec::new();
    let first_life = children[0].self_exit.unwrap_or(100);
    for i in 0..n {
        let gap = match rng.below(8) {
            0 => 0,
            1 => 1,
            2 => first_life,                          // at the moment of exit
            3 => first_life.saturating_sub(debounce_ms), // delivered at the moment of exit
            4 => stop_timeout_ms / 2 + 1,             // during the grace period
            5 => *rng.pick(&[20u64, 60, 200]),
            6 => 1000,
            _ => 3000,
        };
        steps.push(E3Step { gap, kind: E3Kind::Change { id: 10 + i as u32 } });
    }
    // signals that the CLI forwards to the command (HUP / USR1 / USR2 / QUIT), some landing in the same debounce
    // window as a change
    let reserved = [sig_no(stop_signal.as_deref().unwrap_or("TERM")), sig_no(stop_signal.as_deref().or(signal.as_deref()).unwrap_or("TERM"))];
    let fwd: Vec<i32> = [1, 10, 12, 3].into_iter().filter(|s| !reserved.contains(s)).collect();
    if !fwd.is_empty() && rng.chance(1, 3) {
        for _ in 0..rng.range(1, 2) {
            let at = rng.below(steps.len() as u64 + 1) as usize;
            let gap = if rng.chance(1, 2) { 0 } else { *rng.pick(&[1u64, 20, 300]) };
            steps.insert(at, E3Step { gap, kind: E3Kind::Signal { sig: *rng.pick(&fwd) } });
        }
    }
    E3Scn {
        family: "cli".into(),
        mode: mode.into(),
        spelling: spelling.into(),
        postpone: rng.chance(1, 3),
        signal,
        stop_signal,
        stop_timeout_ms,
        delay_run_ms,
        debounce_ms,
        children,
        steps,
        final_signal: *rng.pick(&[2, 15]),
        map_signals: vec![],
        wrap: None,
        // the program cannot be spawned at some attempt (missing, not executable): the job stays idle, later changes
        // must try again
        spawn_fail: if rng.chance(1, 6) { vec![rng.below(3) as u32] } else { vec![] },
    }
}

/// the command forks: other members of its process group, under each `--wrap-process` mode
pub fn gen_cli_grouped(rng: &mut Rng) -> E3Scn {
    let mut s = gen_cli(rng);
    s.family = "cli-grouped".into();
    s.wrap = match rng.below(6) {
        0 | 1 => None,
        2 => Some("group".into()),
        3 => Some("session".into()),
        4 => Some("none".into()),
        _ => Some("legacy-none".into()),
    };
    for c in s.children.iter_mut() {
        if rng.chance(2, 3) {
            c.grandchildren = rng.range(1, 2) as u8;
        }
    }
    s
}

/// `--map-signal`: one of interrupt / terminate is mapped (passed on as another signal, as itself, or discarded) and
/// arrives in mid-run without quitting; the other one, unmapped, ends the run. Plus a mapped ordinary signal.
pub fn gen_cli_mapped(rng: &mut Rng) -> E3Scn {
    let mut s = gen_cli(rng);
    s.family = "cli-mapped".into();
    let reserved = [s.stop_sig_no(), s.busy_sig_no()];
    let free: Vec<&str> = ["HUP", "USR1", "USR2", "QUIT"].into_iter().filter(|n| !reserved.contains(&sig_no(n))).collect();
    let (mapped_quit, other) = if rng.chance(1, 2) { ("INT", 15) } else { ("TERM", 2) };
    let to: Option<String> = match rng.below(5) {
        0 => None,
        1 if !reserved.contains(&sig_no(mapped_quit)) => Some(mapped_quit.to_string()),
        // passed on as KILL (added after A17-C05q): the run ends by a signal the job itself delivered through signal()
        2 => Some("KILL".to_string()),
        _ => free.first().map(|n| n.to_string()),
    };
    s.map_signals = vec![(mapped_quit.to_string(), to)];
    if free.len() >= 2 && rng.chance(1, 2) {
        s.map_signals.push((free[1].to_string(), if rng.chance(1, 3) { None } else { Some(free[0].to_string()) }));
    }
    s.final_signal = other;
    // the mapped quit signal (and possibly the mapped ordinary one) arrive while the command runs
    let at = rng.below(s.steps.len() as u64 + 1) as usize;
    s.steps.insert(at, E3Step { gap: *rng.pick(&[0u64, 1, 20, 300]), kind: E3Kind::Signal { sig: sig_no(mapped_quit) } });
    if s.map_signals.len() > 1 && rng.chance(1, 2) {
        let at = rng.below(s.steps.len() as u64 + 1) as usize;
        s.steps.insert(at, E3Step { gap: *rng.pick(&[0u64, 5, 100]), kind: E3Kind::Signal { sig: sig_no(free[1]) } });
    }
    s
}

/// a storm of changes inside one long debounce window, and the interrupt / terminate signal landing on it
pub fn gen_cli_storm(rng: &mut Rng) -> E3Scn {
    let mut s = gen_cli(rng);
    s.family = "cli-quit-early".into();
    s.debounce_ms = 1000;
    s.delay_run_ms = None;
    s.postpone = false;
    s.map_signals.clear();
    let n = *rng.pick(&[20u32, 33, 40, 80]);
    s.steps = (0..n).map(|i| E3Step { gap: if i == 0 { 3000 } else { 0 }, kind: E3Kind::Change { id: 10 + i } }).collect();
    s
}

/// changes placed exactly at child transitions (exit of the current run, start of the follow-up)
pub fn gen_cli_race(rng: &mut Rng) -> E3Scn {
    let mut s = gen_cli(rng);
    s.family = "cli-race".into();
    s.debounce_ms = 0;
    s.delay_run_ms = None;
    s.postpone = false;
    let life = *rng.pick(&[10u64, 40, 100]);
    s.children = vec![
        ChildSpec { self_exit: Some(life), on_signal: SigReact::Exit(0), ..Default::default() },
        ChildSpec { self_exit: Some(*rng.pick(&[30u64, 200, 1000])), on_signal: SigReact::Exit(0), ..Default::default() },
        ChildSpec { self_exit: Some(50), on_signal: SigReact::Exit(0), ..Default::default() },
    ];
    let mid = life / 2;
    let mut steps = vec![E3Step { gap: mid, kind: E3Kind::Change { id: 10 } }];
    // one to three changes at the very instant the first run ends
    steps.push(E3Step { gap: life - mid, kind: E3Kind::Change { id: 11 } });
    for i in 0..rng.below(3) {
        steps.push(E3Step { gap: 0, kind: E3Kind::Change { id: 12 + i as u32 } });
    }
    s.steps = steps;
    s
}

/// --delay-run with short-lived commands and changes placed around their exits: the job task is busy
/// sleeping when the process ends (stale running state)
pub fn gen_cli_delay(rng: &mut Rng) -> E3Scn {
    let mut s = gen_cli(rng);
    s.family = "cli-delay".into();
    s.mode = rng.pick(&["do-nothing", "signal", "queue", "restart"]).to_string();
    if s.mode != "signal" {
        s.signal = None;
    }
    s.spelling = "long".into();
    let d = *rng.pick(&[5u64, 50]);
    s.delay_run_ms = Some(d);
    s.debounce_ms = 0;
    let life = *rng.pick(&[5u64, 15, 40]);
    s.children = vec![ChildSpec { self_exit: Some(life), on_signal: SigReact::Exit(0), ..Default::default() }];
    let gaps = [0u64, 0, 1, life / 2, life, life + 1, d, d + 1, d + life, d + life + 1, 7, 60, 400];
    s.steps = (0..rng.range(2, 8)).map(|i| E3Step { gap: *rng.pick(&gaps), kind: E3Kind::Change { id: 10 + i as u32 } }).collect();
    s
}

/// --delay-run, one change decided while run 1 is going on (in queue mode: somebody now waits for its end) and a
/// second one whose delay sleep spans the end of run 1: the job task is inside a closure when its process ends, and
/// whoever waits for that end has to be told once the closure is over - not at the end of some later run
pub fn gen_cli_delay_span(rng: &mut Rng) -> E3Scn {
    let mut s = gen_cli(rng);
    s.family = "cli-delay-span".into();
    s.mode = rng.pick(&["queue", "queue", "do-nothing", "signal", "restart"]).to_string();
    if s.mode != "signal" {
        s.signal = None;
    }
    s.spelling = "long".into();
    s.postpone = false;
    s.map_signals.clear();
    s.spawn_fail.clear();
    let d = *rng.pick(&[5u64, 50]);
    s.delay_run_ms = Some(d);
    s.debounce_ms = 0;
    let life = d + *rng.pick(&[3u64, 10, 40, 100]) + d * rng.below(3);
    let life2 = *rng.pick(&[life, 7, 30, 300]);
    s.children = vec![
        ChildSpec { self_exit: Some(life), on_signal: SigReact::Exit(0), ..Default::default() },
        ChildSpec { self_exit: Some(life2), on_signal: SigReact::Exit(0), ..Default::default() },
        ChildSpec { self_exit: Some(*rng.pick(&[5u64, 60])), on_signal: SigReact::Exit(0), ..Default::default() },
    ];
    // run 1: [d, d + life]
    let end = d + life;
    let a = rng.range(d + 1, end - d); // decided at a + d <= end
    let lo = (end - d + 1).max(a);
    let b = rng.range(lo, end.max(lo + 1) - 1).max(lo); // its sleep starts before `end` and is over after it
    let mut steps = vec![E3Step { gap: a, kind: E3Kind::Change { id: 10 } }, E3Step { gap: b - a, kind: E3Kind::Change { id: 11 } }];
    for i in 0..rng.below(3) {
        steps.push(E3Step { gap: *rng.pick(&[0u64, 1, d, life2, life2 + d, 500]), kind: E3Kind::Change { id: 12 + i as u32 } });
    }
    s.steps = steps;
    s
}

pub fn shrink_e3(s: &E3Scn) -> Vec<E3Scn> {
    let mut out = Vec::new();
    for i in 0..s.steps.len() {
        let mut c = s.clone();
        let r = c.steps.remove(i);
        if let Some(n) = c.steps.get_mut(i) {
            n.gap += r.gap;
        }
        out.push(c);
    }
    if s.children.len() > 1 {
        for i in 0..s.children.len() {
            let mut c = s.clone();
            c.children.remove(i);
            out.push(c);
        }
    }
    if s.postpone {
        let mut c = s.clone();
        c.postpone = false;
        out.push(c);
    }
    if s.delay_run_ms.is_some() {
        let mut c = s.clone();
        c.delay_run_ms = None;
        out.push(c);
    }
    if s.stop_signal.is_some() {
        let mut c = s.clone();
        c.stop_signal = None;
        out.push(c);
    }
    if s.spelling != "long" && s.signal.is_none() {
        let mut c = s.clone();
        c.spelling = "long".into();
        out.push(c);
    }
    for g in [0, 1, s.debounce_ms / 2] {
        if g < s.debounce_ms {
            let mut c = s.clone();
            c.debounce_ms = g;
            out.push(c);
        }
    }
    for g in [0, 1, s.stop_timeout_ms / 2] {
        if g < s.stop_timeout_ms {
            let mut c = s.clone();
            c.stop_timeout_ms = g;
            out.push(c);
        }
    }
    for (i, st) in s.steps.iter().enumerate() {
        for g in [0, 1, st.gap / 2] {
            if g < st.gap {
                let mut c = s.clone();
                c.steps[i].gap = g;
                out.push(c);
            }
        }
    }
    for (i, ch) in s.children.iter().enumerate() {
        if let Some(x) = ch.self_exit {
            for y in [1, 5, x / 2] {
                if y < x {
                    let mut c = s.clone();
                    c.children[i].self_exit = Some(y);
                    out.push(c);
                }
            }
        }
        if ch.on_signal != SigReact::Exit(0) {
            let mut c = s.clone();
            c.children[i].on_signal = SigReact::Exit(0);
            out.push(c);
        }
        if ch.code != 0 {
            let mut c = s.clone();
            c.children[i].code = 0;
            out.push(c);
        }
    }
    out
}

pub struct C05;

impl Check for C05 {
    type Scn = E3Scn;
    fn property(&self) -> &'static str {
        "C05"
    }
    fn engine(&self) -> &'static str {
        "E3-clisim"
    }
    fn budget(&self, tier: Tier) -> u64 {
        match tier {
            Tier::Quick => 100_000,
            Tier::Thorough => 30_000_000,
        }
    }
    fn generate(&self, rng: &mut Rng, idx: u64, _tier: Tier) -> Option<E3Scn> {
        Some(match idx % 4 {
            3 => gen_cli_race(rng),
            2 if idx % 8 == 6 => gen_cli_delay_span(rng),
            2 => gen_cli_delay(rng),
            1 if idx % 8 == 5 => gen_cli_mapped(rng),
            _ => gen_cli(rng),
        })
    }
    fn execute(&self, scn: &E3Scn, policy: Policy, sched_seed: u64) -> RunOut {
        e3::execute(scn, policy, sched_seed)
    }
    fn check(&self, scn: &E3Scn, out: &RunOut, stats: &mut Stats) -> Vec<Violation> {
        let d = digest3(out);
        stats.add("probe:batches", d.batches.len() as u64);
        stats.add("probe:runs-started", d.children.iter().filter(|c| c.spawn_seq > 0).count() as u64);
        if scn.delay_run_ms.is_some() {
            stats.hit("probe:delay-run");
        }
        if scn.mode != "signal" && scn.signal.is_some() {
            stats.hit("probe:mode-overridden-by-signal-option");
        }
        if scn.spelling != "long" {
            stats.hit("probe:shorthand-flag");
        }
        oracle_c05(scn, &d, out, stats)
    }
    fn shrink(&self, scn: &E3Scn) -> Vec<E3Scn> {
        shrink_e3(scn)
    }
    fn nontrivial(&self, _scn: &E3Scn, out: &RunOut) -> bool {
        out.hist.iter().filter(|r| matches!(r.ev, Ev::Batch { .. })).count() >= 2 && out.hist.iter().any(|r| matches!(r.ev, Ev::Spawn { .. }))
    }
    fn rule(&self) -> String {
        "scenario = a real argv (--on-busy-update mode or the -r / --signal shorthands, --postpone, --stop-signal, --stop-timeout, --delay-run, --debounce), 1-4 child behaviours (exits quickly / runs long / never ends; reacts to the stop signal at once / late / never), 0-8 change events whose gaps are biased to land before start, mid-run, at the instant of exit, during the grace period and back to back; ended by an interrupt or terminate signal. Seeded PRNG, seeded scheduling policy. distinct = distinct hash of the full recorded history; non-trivial = at least two batches reached the CLI's action handler and at least one run was started".into()
    }
    fn required_probes(&self, _tier: Tier) -> Vec<&'static str> {
        vec![
            "probe:startup-spawn-failed",
            "probe:map-signal",
            "probe:mode-do-nothing",
            "probe:mode-queue",
            "probe:mode-restart",
            "probe:mode-signal",
            "probe:startup-run",
            "probe:postponed",
            "probe:change-while-running-stable",
            "probe:change-ties-with-child-transition-or-idle",
            "probe:restart-judged",
            "probe:queue-judged",
            "probe:delay-run",
            "probe:shorthand-flag",
        ]
    }
    fn components(&self) -> Value {
        e3_components()
    }
    fn assumptions(&self) -> Vec<String> {
        vec![
            "a killed child dies at once; signals are delivered instantly".into(),
            "mode rules are asserted only for change batches delivered in a stable running period (no child transition at that virtual instant); ties are judged by non-overlap, freshness and the global counts only".into(),
            "one OS thread: interleavings at await-point granularity".into(),
            "sampling, not proof".into(),
        ]
    }
}
