//! Own PRNG (R4): splitmix64 seeding + xoshiro256**. No dependency whose stream could change.

#[derive(Clone, Debug)]
pub struct Rng {
    s: [u64; 4],
}

pub fn splitmix(x: &mut u64) -> u64 {
    *x = x.wrapping_add(0x9E37_79B9_7F4A_7C15);
    let mut z = *x;
    z = (z ^ (z >> 30)).wrapping_mul(0xBF58_476D_1CE4_E5B9);
    z = (z ^ (z >> 27)).wrapping_mul(0x94D0_49BB_1331_11EB);
    z ^ (z >> 31)
}

/// Mix several integers into one seed (order-sensitive).
pub fn mix(parts: &[u64]) -> u64 {
    let mut h = 0x243F_6A88_85A3_08D3u64;
    for p in parts {
        let mut x = h ^ p.wrapping_mul(0x9E37_79B9_7F4A_7C15);
        h = splitmix(&mut x).rotate_left(17) ^ *p;
        let mut y = h;
        h = splitmix(&mut y);
    }
    h
}

pub fn str_id(s: &str) -> u64 {
    let mut h = 0xcbf2_9ce4_8422_2325u64;
    for b in s.bytes() {
        h ^= b as u64;
        h = h.wrapping_mul(0x100_0000_01b3);
    }
    h
}

impl Rng {
    pub fn new(seed: u64) -> Self {
        let mut x = seed;
        let s = [splitmix(&mut x), splitmix(&mut x), splitmix(&mut x), splitmix(&mut x)];
        Self { s }
    }
    pub fn next_u64(&mut self) -> u64 {
        let r = self.s[1].wrapping_mul(5).rotate_left(7).wrapping_mul(9);
        let t = self.s[1] << 17;
        self.s[2] ^= self.s[0];
        self.s[3] ^= self.s[1];
        self.s[1] ^= self.s[2];
        self.s[0] ^= self.s[3];
        self.s[2] ^= t;
        self.s[3] = self.s[3].rotate_left(45);
        r
    }
    /// uniform in 0..n (n>0)
    pub fn below(&mut self, n: u64) -> u64 {
        debug_assert!(n > 0);
        // multiply-shift; bias negligible for our n
        ((self.next_u64() as u128 * n as u128) >> 64) as u64
    }
    pub fn range(&mut self, lo: u64, hi_incl: u64) -> u64 {
        lo + self.below(hi_incl - lo + 1)
    }
    pub fn chance(&mut self, num: u64, den: u64) -> bool {
        self.below(den) < num
    }
    pub fn pick<'a, T>(&mut self, xs: &'a [T]) -> &'a T {
        &xs[self.below(xs.len() as u64) as usize]
    }
    pub fn fork(&mut self, tag: u64) -> Rng {
        Rng::new(mix(&[self.next_u64(), tag]))
    }
}

/// FNV-1a 64 hasher with fixed key (deterministic across processes).
#[derive(Clone)]
pub struct Fnv(pub u64);
impl Default for Fnv {
    fn default() -> Self {
        Fnv(0xcbf2_9ce4_8422_2325)
    }
}
impl std::hash::Hasher for Fnv {
    fn finish(&self) -> u64 {
        // final avalanche
        let mut x = self.0;
        splitmix(&mut x)
    }
    fn write(&mut self, bytes: &[u8]) {
        for b in bytes {
            self.0 ^= *b as u64;
            self.0 = self.0.wrapping_mul(0x100_0000_01b3);
        }
    }
}
pub fn hash_of<T: std::hash::Hash>(t: &T) -> u64 {
    use std::hash::Hasher;
    let mut h = Fnv::default();
    t.hash(&mut h);
    h.finish()
}
