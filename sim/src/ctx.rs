//! Per-run simulation context: virtual clock, history, scheduling policy, world-stub state.
//!
//! Everything is thread-local: one OS thread owns one run end to end (runtime, hooks, policy).

use std::cell::RefCell;
use std::future::Future;
use std::time::Duration;

use serde::{Deserialize, Serialize};

use crate::rng::Rng;

pub const HOUR_MS: u64 = 3_600_000;

// ------------------------------------------------------------------------------------------
// history

#[derive(Clone, Debug, PartialEq, Eq, Hash, Serialize)]
pub enum StateKind {
    Pending,
    Running,
    /// Finished with status code (see `status_code`).
    Finished(i32),
    None,
}

/// One history event. Small ints only so that hashing/compare is cheap.
#[derive(Clone, Debug, PartialEq, Eq, Hash, Serialize)]
pub enum Ev {
    // ---- job clients (E1/E2/E3)
    CtlSend { job: u8, sender: u8, op: u32, what: &'static str },
    Resolved { op: u32, waiter: u8 },
    Hung { op: u32, waiter: u8 },
    MarkerStart { op: u32, cur: StateKind, prev: StateKind },
    MarkerEnd { op: u32 },
    HookCall { job: u8, n: u32, cur: StateKind, prev: StateKind },
    HookEnd { job: u8, n: u32 },
    JobErr { job: u8, n: u32, msg: String },
    TaskEnd { job: u8, panicked: bool },
    HandlesDropped { job: u8 },
    // ---- children
    Spawn { job: u8, child: u32, hook_env: i64, kill_on_drop: bool, group: bool, session: bool },
    SpawnFail { job: u8, attempt: u32 },
    Signal { child: u32, sig: i32, delivered: bool },
    SignalFail { child: u32, sig: i32 },
    Kill { child: u32 },
    KillFail { child: u32 },
    /// the child died at `t` (logged lazily; `t` is the death instant)
    Exit { child: u32, status: i32 },
    Reaped { child: u32, status: i32 },
    WaitFail { child: u32 },
    Dropped { child: u32, reaped: bool, in_shutdown: bool },
    // ---- library level (E2/E3)
    EvSend { id: u32, prio: u8, src: u8 },
    EvSent { id: u32, ok: bool },
    EvTrySend { id: u32, ok: bool },
    Filter { id: u32, verdict: u8 },
    Batch { n: u32, ids: Vec<u32>, urgent: bool },
    BatchEnd { n: u32 },
    RtErr { n: u32, msg: String },
    ErrAction { n: u32, what: &'static str },
    Watcher { w: u32, what: &'static str, path: u8, rec: bool, ok: bool },
    /// poll_ms: -1 = native watcher, otherwise the poll interval
    WatcherNew { w: u32, poll_ms: i64, ok: bool },
    WatcherDrop { w: u32 },
    CfgChange { n: u32, what: String },
    QuitReq { manner: &'static str, grace: u64 },
    MainEnd { ok: bool, msg: String },
    Note { what: &'static str, a: i64, b: i64 },
}

#[derive(Clone, Debug, PartialEq, Eq, Hash, Serialize)]
pub struct Rec {
    pub seq: u32,
    /// virtual ms
    pub t: u64,
    pub ev: Ev,
}

// ------------------------------------------------------------------------------------------
// scheduling policy

#[derive(Clone, Debug, PartialEq, Serialize, Deserialize)]
pub enum Policy {
    /// run queue FIFO (upstream order); select! start branch seeded-random (upstream: random)
    Fifo,
    /// run queue FIFO; select! always starts at branch 0
    Biased,
    /// uniform over ready tasks and select! branches
    Random,
    /// FIFO with probability p/1000 per pick, else uniform
    Sticky(u32),
    /// PCT-like: each pick takes the front, except at `d` pre-drawn pick indices where the *last* is taken
    Pct(Vec<u32>),
    /// explicit choice list (missing picks = 0, out-of-range picks clamp)
    Replay(Vec<u32>),
}

thread_local! {
    /// (kind, n) of every pick of the last finished run on this thread (debugging aid)
    pub static LAST_META: RefCell<Vec<(u32, u32)>> = const { RefCell::new(Vec::new()) };
}

pub struct Sched {
    pub policy: Policy,
    pub rng: Rng,
    pub choices: Vec<u32>,
    /// (kind, n) per pick: debugging aid, not part of a replay
    pub meta: Vec<(u32, u32)>,
    pub cap: usize,
    pub overflow: bool,
}

impl Sched {
    pub fn new(policy: Policy, seed: u64) -> Self {
        Self { policy, rng: Rng::new(seed), choices: Vec::new(), meta: Vec::new(), cap: 200_000, overflow: false }
    }
    fn choose(&mut self, kind: u32, n: u32) -> u32 {
        let i = self.choices.len();
        if i >= self.cap {
            self.overflow = true;
            panic!("SIM-RUNAWAY: more than {} scheduler picks in one run", self.cap);
        }
        let c = match &self.policy {
            Policy::Fifo => {
                if kind == 0 {
                    0
                } else {
                    self.rng.below(n as u64) as u32
                }
            }
            Policy::Biased => 0,
            Policy::Random => self.rng.below(n as u64) as u32,
            Policy::Sticky(p) => {
                let p = *p as u64;
                if self.rng.below(1000) < p {
                    if kind == 0 {
                        0
                    } else {
                        self.rng.below(n as u64) as u32
                    }
                } else {
                    self.rng.below(n as u64) as u32
                }
            }
            Policy::Pct(points) => {
                let r = self.rng.below(n as u64) as u32;
                if points.contains(&(i as u32)) {
                    n - 1
                } else if kind == 0 {
                    0
                } else {
                    r
                }
            }
            Policy::Replay(list) => list.get(i).copied().unwrap_or(0).min(n - 1),
        };
        self.choices.push(c);
        self.meta.push((kind, n));
        c
    }
}

// ------------------------------------------------------------------------------------------
// run state

pub struct Run {
    pub start: tokio::time::Instant,
    pub seq: u32,
    pub hist: Vec<Rec>,
    pub shutting_down: bool,
    pub end_ms: u64,
    pub world: crate::child::World,
    pub lib: crate::e2::LibWorld,
}

thread_local! {
    pub static RUN: RefCell<Option<Run>> = const { RefCell::new(None) };
    pub static SCHED: RefCell<Option<Sched>> = const { RefCell::new(None) };
}

pub fn with_run<R>(f: impl FnOnce(&mut Run) -> R) -> R {
    RUN.with(|r| {
        let mut r = r.borrow_mut();
        f(r.as_mut().expect("no run installed"))
    })
}

pub fn now_ms() -> u64 {
    let (start, sd, end) = with_run(|r| (r.start, r.shutting_down, r.end_ms));
    if sd {
        return end;
    }
    let d = tokio::time::Instant::now().duration_since(start);
    debug_assert_eq!(d.subsec_nanos() % 1_000_000, 0, "virtual time off the ms grid");
    d.as_millis() as u64
}

pub fn log(ev: Ev) {
    let t = now_ms();
    log_at(t, ev);
}

pub fn log_at(t: u64, ev: Ev) {
    with_run(|r| {
        r.seq += 1;
        let seq = r.seq;
        r.hist.push(Rec { seq, t, ev });
    })
}

pub fn seq_now() -> u32 {
    with_run(|r| r.seq)
}

pub fn ms(d: u64) -> Duration {
    Duration::from_millis(d)
}

/// "Slow node" fault: the task being polled right now is not polled again for `d` virtual ms after it
/// next yields, while everything else (and the clock) moves on.
pub fn stall_current_task(d: u64) {
    if d == 0 {
        return;
    }
    if let Some(id) = tokio::runtime::sim::current_task_id() {
        let until = tokio::time::Instant::now() + ms(d);
        tokio::runtime::sim::stall(id, until);
        // make sure the scheduler wakes up when the stall is over
        tokio::spawn(async move { tokio::time::sleep_until(until).await });
        log(Ev::Note { what: "task-stalled", a: d as i64, b: 0 });
    }
}

pub async fn sleep_ms(d: u64) {
    tokio::time::sleep(ms(d)).await
}

#[derive(Debug)]
pub struct RunOut {
    pub hist: Vec<Rec>,
    pub choices: Vec<u32>,
    pub end_ms: u64,
    /// run aborted by the harness (runaway picks or a panic in the simulation root)
    pub aborted: Option<String>,
}

pub struct SimOpts {
    pub enable_io: bool,
}

/// Run one simulation: a fresh paused current-thread runtime, `root` spawned as a task.
pub fn run_sim<F, Fut>(policy: Policy, sched_seed: u64, opts: SimOpts, root: F) -> RunOut
where
    F: FnOnce() -> Fut,
    Fut: Future<Output = ()> + Send + 'static,
{
    run_sim_with(policy, sched_seed, opts, move || async move {
        let h = tokio::spawn(root());
        match h.await {
            Ok(()) => None,
            Err(e) => Some(format!("root task failed: {e}")),
        }
    })
}

/// Same, with `root` as the runtime's main (block_on) future: for roots that are not `Send`.
pub fn run_sim_main<F, Fut>(policy: Policy, sched_seed: u64, opts: SimOpts, root: F) -> RunOut
where
    F: FnOnce() -> Fut,
    Fut: Future<Output = ()> + 'static,
{
    run_sim_with(policy, sched_seed, opts, move || async move {
        root().await;
        None
    })
}

fn run_sim_with<F, Fut>(policy: Policy, sched_seed: u64, opts: SimOpts, root: F) -> RunOut
where
    F: FnOnce() -> Fut,
    Fut: Future<Output = Option<String>>,
{
    tokio::runtime::sim::clear_stalls();
    SCHED.with(|s| *s.borrow_mut() = Some(Sched::new(policy, sched_seed)));
    tokio::runtime::sim::set_policy(Some(Box::new(|kind, n| {
        SCHED.with(|s| s.borrow_mut().as_mut().map(|s| s.choose(kind, n)))
    })));

    let res = std::panic::catch_unwind(std::panic::AssertUnwindSafe(|| {
        let mut b = tokio::runtime::Builder::new_current_thread();
        if opts.enable_io {
            b.enable_all();
        } else {
            b.enable_time();
        }
        let rt = b.start_paused(true).build().expect("runtime");
        let aborted = rt.block_on(async move {
            RUN.with(|r| {
                *r.borrow_mut() = Some(Run {
                    start: tokio::time::Instant::now(),
                    seq: 0,
                    hist: Vec::with_capacity(128),
                    shutting_down: false,
                    end_ms: 0,
                    world: Default::default(),
                    lib: Default::default(),
                })
            });
            root().await
        });
        let end_ms = now_ms_rt(&rt);
        with_run(|r| {
            r.end_ms = end_ms;
            r.shutting_down = true;
        });
        drop(rt);
        (aborted, end_ms)
    }));

    tokio::runtime::sim::set_policy(None);
    tokio::runtime::sim::clear_stalls();
    let sched = SCHED.with(|s| s.borrow_mut().take()).expect("sched");
    LAST_META.with(|m| *m.borrow_mut() = sched.meta.clone());
    let run = RUN.with(|r| r.borrow_mut().take());
    let (aborted, end_ms) = match res {
        Ok((a, e)) => (a, e),
        Err(p) => {
            let msg = if let Some(s) = p.downcast_ref::<String>() {
                s.clone()
            } else if let Some(s) = p.downcast_ref::<&str>() {
                s.to_string()
            } else {
                "panic".to_string()
            };
            (Some(format!("panic: {msg}")), 0)
        }
    };
    RunOut {
        hist: run.map(|r| r.hist).unwrap_or_default(),
        choices: sched.choices,
        end_ms,
        aborted,
    }
}

fn now_ms_rt(rt: &tokio::runtime::Runtime) -> u64 {
    let _g = rt.enter();
    now_ms()
}
