//! wxsim: deterministic simulation with fault injection for watchexec.
//!
//! usage:
//!   wxsim check <PROPERTY> [--tier quick|thorough] [--runs N] [--threads N] [--cap SECS] [--no-evidence]
//!   wxsim replay <FILE> [-v]
//!   wxsim selftest determinism [--runs N]
//!   wxsim one <PROPERTY> <RUN_INDEX> [-v]        (print one run of the batch)

mod check;
mod child;
mod ctx;
mod e1;
mod e2;
mod e3;
mod model;
mod p_e1;
mod p_e2;
mod p_e3;
mod rng;

use std::sync::Arc;
use std::time::Duration;

use check::{BatchCfg, Check, Tier};

fn verif_dir() -> String {
    std::env::var("VERIF_DIR").unwrap_or_else(|_| {
        // the binary lives in <verif>/sim/target/release/
        let exe = std::env::current_exe().ok();
        exe.and_then(|e| e.ancestors().nth(4).map(|p| p.to_string_lossy().to_string())).unwrap_or_else(|| "/verif".into())
    })
}

fn seed_from_env() -> u64 {
    std::env::var("VERIF_SEED").ok().and_then(|s| s.trim().parse::<u64>().ok()).unwrap_or(1)
}

struct Args {
    tier: Tier,
    runs: Option<u64>,
    threads: usize,
    cap: Option<u64>,
    evidence: bool,
    verbose: bool,
    only: Option<String>,
    rest: Vec<String>,
}

fn parse_args(args: &[String]) -> Args {
    let mut a = Args {
        tier: match std::env::var("VERIF_TIER").as_deref() {
            Ok("thorough") => Tier::Thorough,
            _ => Tier::Quick,
        },
        runs: None,
        threads: std::thread::available_parallelism().map(|n| n.get()).unwrap_or(4).min(16),
        cap: None,
        evidence: true,
        verbose: false,
        only: None,
        rest: vec![],
    };
    let mut i = 0;
    while i < args.len() {
        match args[i].as_str() {
            "--tier" => {
                i += 1;
                a.tier = if args[i] == "thorough" { Tier::Thorough } else { Tier::Quick };
            }
            "--runs" => {
                i += 1;
                a.runs = args[i].parse().ok();
            }
            "--threads" => {
                i += 1;
                a.threads = args[i].parse().unwrap_or(1);
            }
            "--cap" => {
                i += 1;
                a.cap = args[i].parse().ok();
            }
            "--no-evidence" => a.evidence = false,
            "--only" => {
                i += 1;
                a.only = Some(args[i].clone());
                a.evidence = false;
            }
            "-v" => a.verbose = true,
            s => a.rest.push(s.to_string()),
        }
        i += 1;
    }
    a
}

fn batch<C: Check>(c: C, a: &Args) -> i32 {
    let cap = a.cap.unwrap_or(match a.tier {
        Tier::Quick => 120,
        Tier::Thorough => 1500,
    });
    check::run_batch(
        Arc::new(c),
        BatchCfg {
            tier: a.tier,
            seed: seed_from_env(),
            threads: a.threads,
            wall_cap: Duration::from_secs(cap),
            verif_dir: verif_dir(),
            runs_override: a.runs,
            write_evidence: a.evidence,
            only: a.only.clone(),
        },
    )
}

fn show_one<C: Check>(c: C, idx: u64, a: &Args) -> i32 {
    let Some((scn, policy, _ss, out)) = check::one_run(&c, seed_from_env(), idx, a.tier) else {
        println!("run {idx}: skipped");
        return 0;
    };
    println!("scenario: {}", serde_json::to_string_pretty(&scn).unwrap());
    println!("policy: {policy:?}  picks: {}", out.choices.len());
    for r in &out.hist {
        println!("  {:>4} t={:<8} {:?}", r.seq, r.t, r.ev);
    }
    let mut st = check::Stats::default();
    for v in c.check(&scn, &out, &mut st) {
        println!("VIOLATION-IN-RUN oracle={} signature=\"{}\" {}", v.oracle, v.signature, v.msg);
    }
    println!("aborted: {:?}  hist-hash {:016x}", out.aborted, check::hist_hash(&out));
    0
}

macro_rules! dispatch {
    ($prop:expr, $f:ident, $($arg:expr),*) => {
        match $prop {
            "C01" => $f(p_e2::C01, $($arg),*),
            "C02" => $f(p_e2::C02, $($arg),*),
            "C04" => $f(p_e1::C04, $($arg),*),
            "C05" => $f(p_e3::C05, $($arg),*),
            "C06" => $f(p_e1::C06, $($arg),*),
            "C07" => $f(p_e1::C07, $($arg),*),
            "C08" => $f(p_e2::C08, $($arg),*),
            "C09" => $f(model::C09, $($arg),*),
            "C10" => $f(p_e1::C10, $($arg),*),
            "C13" => $f(p_e2::C13, $($arg),*),
            "C15" => $f(p_e2::C15, $($arg),*),
            other => {
                eprintln!("unknown or not-applicable property {other}");
                2
            }
        }
    };
}

fn replay_file<C: Check>(c: C, doc: &serde_json::Value, a: &Args) -> i32 {
    check::replay(&c, doc, a.verbose)
}

fn determinism<C: Check>(c: C, a: &Args) -> i32 {
    // every run twice on this thread, once on another thread; compare history hashes and choice lists
    let n = a.runs.unwrap_or(2000);
    let seed = seed_from_env();
    let c = Arc::new(c);
    let mut bad = 0;
    let mut first: Vec<(u64, u64)> = Vec::new();
    for idx in 0..n {
        let h = |c: &C| check::one_run(c, seed, idx, a.tier).map(|(_, _, _, o)| (check::hist_hash(&o), rng::hash_of(&o.choices)));
        let x = h(&c);
        let mx = ctx::LAST_META.with(|m| m.borrow().clone());
        let y = h(&c);
        let my = ctx::LAST_META.with(|m| m.borrow().clone());
        if x != y && std::env::var("WX_ND_DUMP").is_ok() {
            println!("--- meta {:?}\n--- vs   {:?}", mx, my);
        }
        if x != y {
            bad += 1;
            println!("NONDETERMINISM property={} run={idx} same-thread {:?} vs {:?}", c.property(), x, y);
            if std::env::var("WX_ND_DUMP").is_ok() {
                // debugging aid: both histories side by side
                let a1 = check::one_run(&*c, seed, idx, a.tier);
                let m1 = ctx::LAST_META.with(|m| m.borrow().clone());
                for k in 0..8 {
                    let b1 = check::one_run(&*c, seed, idx, a.tier);
                    let m2 = ctx::LAST_META.with(|m| m.borrow().clone());
                    if let (Some(a1), Some(b1)) = (&a1, &b1) {
                        if check::hist_hash(&a1.3) != check::hist_hash(&b1.3) || a1.3.choices != b1.3.choices {
                            println!("--- attempt {k}: first");
                            for r in &a1.3.hist { println!("{:>5} {:>8} {:?}", r.seq, r.t, r.ev); }
                            println!("--- second");
                            for r in &b1.3.hist { println!("{:>5} {:>8} {:?}", r.seq, r.t, r.ev); }
                            println!("--- choices {:?}\n--- vs {:?}", a1.3.choices, b1.3.choices);
                            println!("--- meta {:?}\n--- vs {:?}", m1, m2);
                            break;
                        }
                    }
                }
            }
        }
        first.push(x.unwrap_or((0, 0)));
    }
    let c2 = c.clone();
    let tier = a.tier;
    let other: Vec<(u64, u64)> = std::thread::Builder::new()
        .stack_size(16 << 20)
        .spawn(move || {
            (0..n)
                .map(|idx| check::one_run(&*c2, seed, idx, tier).map(|(_, _, _, o)| (check::hist_hash(&o), rng::hash_of(&o.choices))).unwrap_or((0, 0)))
                .collect()
        })
        .unwrap()
        .join()
        .unwrap();
    for idx in 0..n as usize {
        if first[idx] != other[idx] {
            bad += 1;
            println!("NONDETERMINISM property={} run={idx} other-thread {:?} vs {:?}", c.property(), first[idx], other[idx]);
        }
    }
    // a digest that can be compared across processes
    println!("determinism property={} runs={n} mismatches={bad} digest={:016x}", c.property(), rng::hash_of(&first));
    if bad > 0 {
        2
    } else {
        0
    }
}

fn main() {
    std::panic::set_hook(Box::new(|info| {
        if std::env::var("WXSIM_PANICS").is_ok() {
            eprintln!("panic: {info}");
        }
    }));
    let argv: Vec<String> = std::env::args().skip(1).collect();
    if argv.is_empty() {
        eprintln!("usage: wxsim check|replay|selftest|one ...");
        std::process::exit(2);
    }
    let a = parse_args(&argv[1..]);
    let code = match argv[0].as_str() {
        "check" => {
            let p = a.rest.first().cloned().unwrap_or_default();
            dispatch!(p.as_str(), batch, &a)
        }
        "one" => {
            let p = a.rest.first().cloned().unwrap_or_default();
            let idx: u64 = a.rest.get(1).and_then(|s| s.parse().ok()).unwrap_or(0);
            dispatch!(p.as_str(), show_one, idx, &a)
        }
        "replay" => {
            let path = a.rest.first().cloned().unwrap_or_default();
            let txt = std::fs::read_to_string(&path).unwrap_or_else(|e| {
                eprintln!("cannot read {path}: {e}");
                std::process::exit(2)
            });
            let doc: serde_json::Value = serde_json::from_str(&txt).expect("replay file is not JSON");
            let p = doc["property"].as_str().unwrap_or("").to_string();
            dispatch!(p.as_str(), replay_file, &doc, &a)
        }
        "selftest" => {
            let p = a.rest.get(1).cloned().unwrap_or_else(|| "C04".into());
            dispatch!(p.as_str(), determinism, &a)
        }
        _ => {
            eprintln!("unknown command");
            2
        }
    };
    std::process::exit(code);
}
