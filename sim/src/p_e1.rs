//! E1 property checks: C04, C06, C07, C10 (invariant oracles over recorded histories).
//! C09 (reference model) lives in model.rs.

use serde_json::{json, Value};

use crate::check::{Check, Stats, Tier, Violation};
use crate::child::{ChildSpec, SigReact};
use crate::ctx::{Ev, Policy, RunOut};
use crate::e1::{self, digest, expected_os_signal, Digest, E1Scn, GenCfg, Op, Step};
use crate::rng::Rng;

pub fn e1_components() -> Value {
    json!({
        "real": [
            "watchexec-supervisor: start_job / job task loop, PriorityReceiver, Timer, Flag, Ticket, CommandState, Command::to_spawnable",
            "tokio 1.43.0: timers, mpsc channels, select!, task harness, paused clock (vendored; only the run-queue pick and the select! start branch are decided by the simulator)",
            "futures AtomicWaker"
        ],
        "stub": [
            "child processes and the kernel (SimChild behind the production TokioChildWrapper trait, installed through hook H2; presence of KillOnDrop/ProcessGroup/ProcessSession wrappers is recorded, their behaviour is modelled)",
            "wall clock (virtual, discrete-event)"
        ]
    })
}

pub fn e1_assumptions() -> Vec<String> {
    vec![
        "a killed child dies at once and its wait() then returns; signals are delivered instantly".into(),
        "one OS thread: interleavings are explored at await-point granularity; any poll order of ready tasks is one the multi-thread runtime can also produce".into(),
        "sampling, not proof: schedules and scenarios are drawn by a seeded PRNG".into(),
    ]
}

pub fn e1_stats(scn: &E1Scn, d: &Digest, out: &RunOut, stats: &mut Stats) {
    stats.add("fault:spawn-failure", d.spawn_fails.len() as u64);
    let mut sf = 0;
    let mut kf = 0;
    let mut wf = 0;
    for r in &out.hist {
        match r.ev {
            Ev::SignalFail { .. } => sf += 1,
            Ev::KillFail { .. } => kf += 1,
            Ev::WaitFail { .. } => wf += 1,
            _ => {}
        }
    }
    stats.add("fault:signal-error", sf);
    stats.add("fault:kill-error", kf);
    stats.add("fault:wait-error", wf);
    if scn.drop_handles {
        stats.hit("fault:last-handle-dropped");
    }
    for c in &d.children {
        if let (Some((et, st)), Some(_)) = (c.exit, c.reaped) {
            if st < 1000 {
                stats.hit("fault:child-self-exit");
            }
            // exit inside a grace period: a signal was delivered earlier and the child died later by itself or by the signal
            if c.signals.iter().any(|s| s.3 && s.0 < et) && c.kills.iter().all(|k| k.0 > et) {
                stats.hit("probe:child-exit-inside-grace");
            }
        }
        if c.signals.iter().any(|s| s.3) && matches!(scn.children.first(), Some(_)) && c.kills.len() > 0 {
            stats.hit("probe:kill-after-signal");
        }
    }
    if d.task_end.is_some() {
        stats.hit("probe:job-task-ended");
    }
    if d.resolved.values().any(|v| v.len() >= 2) {
        stats.hit("probe:two-waiters-on-one-ticket");
    }
    if scn.senders.len() >= 2 {
        stats.hit("probe:concurrent-senders");
    }
}

pub fn e1_nontrivial(scn: &E1Scn, out: &RunOut) -> bool {
    scn.n_ops() >= 2 && out.hist.iter().any(|r| matches!(r.ev, Ev::Spawn { .. }))
}

pub const E1_RULE: &str = "scenario = control sequences per sender task (gaps, waiters), child behaviour per spawn, fault plan; \
drawn from a seeded PRNG (swarm: op mix, send style, fault kinds, scheduling policy vary per run). \
distinct = distinct hash of the full recorded history (every event with its virtual time); \
non-trivial = at least two controls were sent and at least one child was spawned";

// ------------------------------------------------------------------------------------------
// shrinking (shared)

pub fn shrink_e1(s: &E1Scn) -> Vec<E1Scn> {
    let mut out = Vec::new();
    // drop a whole sender
    if s.senders.len() > 1 {
        for i in 0..s.senders.len() {
            let mut c = s.clone();
            c.senders.remove(i);
            out.push(c);
        }
    }
    // drop a step
    for (si, steps) in s.senders.iter().enumerate() {
        for i in 0..steps.len() {
            let mut c = s.clone();
            let removed = c.senders[si].remove(i);
            // keep absolute timing of the following step
            if let Some(next) = c.senders[si].get_mut(i) {
                next.gap += removed.gap;
            }
            out.push(c);
        }
    }
    if s.drop_handles {
        let mut c = s.clone();
        c.drop_handles = false;
        out.push(c);
    }
    if !s.spawn_fail.is_empty() {
        for i in 0..s.spawn_fail.len() {
            let mut c = s.clone();
            c.spawn_fail.remove(i);
            out.push(c);
        }
    }
    if s.grouped || s.session {
        let mut c = s.clone();
        c.grouped = false;
        c.session = false;
        out.push(c);
    }
    // children
    if s.children.len() > 1 {
        for i in 0..s.children.len() {
            let mut c = s.clone();
            c.children.remove(i);
            out.push(c);
        }
    }
    for (i, ch) in s.children.iter().enumerate() {
        let d = ChildSpec::default();
        if *ch != d {
            let mut c = s.clone();
            c.children[i] = d.clone();
            out.push(c);
        }
        for f in 0..6 {
            let mut n = ch.clone();
            match f {
                0 if n.fail_signal => n.fail_signal = false,
                1 if n.fail_kill => n.fail_kill = false,
                2 if n.fail_wait => n.fail_wait = false,
                3 if n.self_exit.is_some() => n.self_exit = None,
                4 if n.code != 0 => n.code = 0,
                5 if n.grandchildren != 0 => n.grandchildren = 0,
                _ => continue,
            }
            let mut c = s.clone();
            c.children[i] = n;
            out.push(c);
        }
        if let Some(x) = ch.self_exit {
            for y in [0, 1, x / 2] {
                if y < x {
                    let mut c = s.clone();
                    c.children[i].self_exit = Some(y);
                    out.push(c);
                }
            }
        }
        if let SigReact::Exit(x) = ch.on_signal {
            for y in [0, 1, x / 2] {
                if y < x {
                    let mut c = s.clone();
                    c.children[i].on_signal = SigReact::Exit(y);
                    out.push(c);
                }
            }
        }
    }
    // steps
    for (si, steps) in s.senders.iter().enumerate() {
        for (i, st) in steps.iter().enumerate() {
            if st.waiters > 0 {
                let mut c = s.clone();
                c.senders[si][i].waiters = st.waiters - 1;
                out.push(c);
            }
            if st.inline {
                let mut c = s.clone();
                c.senders[si][i].inline = false;
                if c.senders[si][i].waiters == 0 {
                    c.senders[si][i].waiters = 1;
                }
                out.push(c);
            }
            for g in [0, 1, st.gap / 2] {
                if g < st.gap {
                    let mut c = s.clone();
                    c.senders[si][i].gap = g;
                    out.push(c);
                }
            }
            let simpler: Vec<Op> = match &st.op {
                Op::StopSig { sig, grace } => [0, 1, grace / 2].iter().filter(|g| **g < *grace).map(|g| Op::StopSig { sig: *sig, grace: *g }).collect(),
                Op::RestartSig { sig, grace } => [0, 1, grace / 2].iter().filter(|g| **g < *grace).map(|g| Op::RestartSig { sig: *sig, grace: *g }).collect(),
                Op::TryRestartSig { sig, grace } => {
                    [0, 1, grace / 2].iter().filter(|g| **g < *grace).map(|g| Op::TryRestartSig { sig: *sig, grace: *g }).collect()
                }
                Op::RunAsync { ms } if *ms > 0 => vec![Op::Run, Op::RunAsync { ms: 0 }, Op::RunAsync { ms: 1 }],
                Op::RunAsync { .. } => vec![Op::Run],
                Op::SetHook { async_ms: Some(_) } => vec![Op::SetHook { async_ms: None }],
                Op::SetErr { async_ms: Some(_) } => vec![Op::SetErr { async_ms: None }],
                _ => vec![],
            };
            for op in simpler {
                if op != st.op {
                    let mut c = s.clone();
                    c.senders[si][i].op = op;
                    out.push(c);
                }
            }
        }
    }
    out
}

// ------------------------------------------------------------------------------------------
// C04: never two live processes per job

pub fn oracle_c04(out: &RunOut) -> Vec<Violation> {
    let mut vs = Vec::new();
    // monitor over the history in log order
    let mut live: Vec<(u8, u32)> = Vec::new(); // (job, child): spawned, not yet reaped, not dropped
    for r in &out.hist {
        match &r.ev {
            Ev::Spawn { job, child, .. } => {
                if let Some((_, prev)) = live.iter().find(|(j, _)| j == job) {
                    vs.push(Violation::new(
                        "two-live-children",
                        "",
                        format!("job {job}: child {child} spawned at t={} (#{}) while child {prev} was spawned and neither reaped nor dropped", r.t, r.seq),
                    ));
                }
                live.push((*job, *child));
            }
            Ev::Reaped { child, .. } => live.retain(|(_, c)| c != child),
            Ev::Dropped { child, .. } => live.retain(|(_, c)| c != child),
            _ => {}
        }
    }
    vs
}

pub struct C04;

impl Check for C04 {
    type Scn = E1Scn;
    fn property(&self) -> &'static str {
        "C04"
    }
    fn engine(&self) -> &'static str {
        "E1-jobsim"
    }
    fn budget(&self, tier: Tier) -> u64 {
        match tier {
            Tier::Quick => 200_000,
            Tier::Thorough => 20_000_000,
        }
    }
    fn generate(&self, rng: &mut Rng, idx: u64, _tier: Tier) -> Option<E1Scn> {
        // strata: even indices fault-free, odd indices fault-injecting
        let faults = idx % 2 == 1;
        Some(e1::gen_random(rng, &GenCfg { faults, max_ops: if idx % 5 == 0 { 40 } else { 12 }, max_senders: 3, allow_drop: true }))
    }
    fn execute(&self, scn: &E1Scn, policy: Policy, sched_seed: u64) -> RunOut {
        e1::execute(scn, policy, sched_seed)
    }
    fn check(&self, scn: &E1Scn, out: &RunOut, stats: &mut Stats) -> Vec<Violation> {
        let d = digest(out);
        e1_stats(scn, &d, out, stats);
        stats.add("probe:spawns", d.children.len() as u64);
        let respawns = d.children.len().saturating_sub(1) as u64;
        stats.add("probe:respawn-after-reap", respawns);
        oracle_c04(out)
    }
    fn shrink(&self, scn: &E1Scn) -> Vec<E1Scn> {
        shrink_e1(scn)
    }
    fn nontrivial(&self, scn: &E1Scn, out: &RunOut) -> bool {
        e1_nontrivial(scn, out)
    }
    fn rule(&self) -> String {
        E1_RULE.into()
    }
    fn required_probes(&self, _tier: Tier) -> Vec<&'static str> {
        vec!["probe:respawn-after-reap", "fault:spawn-failure", "fault:child-self-exit", "probe:concurrent-senders", "fault:kill-error", "fault:wait-error"]
    }
    fn components(&self) -> Value {
        e1_components()
    }
    fn assumptions(&self) -> Vec<String> {
        e1_assumptions()
    }
}

#[allow(dead_code)]
fn _unused(_: &Step) {
    let _ = expected_os_signal(1);
}
