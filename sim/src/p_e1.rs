//! E1 property checks: C04, C06, C07, C10 (invariant oracles over recorded histories).
//! C09 (reference model) lives in model.rs.

use serde_json::{json, Value};

use crate::check::{Check, Stats, Tier, Violation};
use crate::child::{ChildSpec, SigReact};
use crate::ctx::{Ev, Policy, RunOut, HOUR_MS};
use crate::e1::{self, digest, expected_os_signal, Digest, E1Scn, GenCfg, Op, Step};
use crate::rng::Rng;

pub fn e1_components() -> Value {
    json!({
        "real": [
            "watchexec-supervisor: start_job / job task loop, PriorityReceiver, Timer, Flag, Ticket, CommandState, Command::to_spawnable",
            "tokio 1.43.0: timers, mpsc channels, select!, task harness, paused clock (vendored; only the run-queue pick and the select! start branch are decided by the simulator)",
            "futures AtomicWaker"
        ],
        "stub": [
            "child processes and the kernel (SimChild behind the production TokioChildWrapper trait, installed through hook H2; presence of KillOnDrop/ProcessGroup/ProcessSession wrappers is recorded, their behaviour is modelled)",
            "wall clock (virtual, discrete-event)"
        ]
    })
}

pub fn e1_assumptions() -> Vec<String> {
    vec![
        "a killed child dies at once and its wait() then returns (except under the slow-death fault of C04/C09: a configurable lag between kill and death); signals are delivered instantly".into(),
        "one OS thread: interleavings are explored at await-point granularity; any poll order of ready tasks is one the multi-thread runtime can also produce".into(),
        "sampling, not proof: schedules and scenarios are drawn by a seeded PRNG".into(),
    ]
}

pub fn e1_stats(scn: &E1Scn, d: &Digest, out: &RunOut, stats: &mut Stats) {
    stats.add("fault:spawn-failure", d.spawn_fails.len() as u64);
    let mut sf = 0;
    let mut kf = 0;
    let mut wf = 0;
    for r in &out.hist {
        match r.ev {
            Ev::SignalFail { .. } => sf += 1,
            Ev::KillFail { .. } => kf += 1,
            Ev::WaitFail { .. } => wf += 1,
            _ => {}
        }
    }
    stats.add("fault:signal-error", sf);
    stats.add("fault:kill-error", kf);
    stats.add("fault:wait-error", wf);
    if scn.drop_handles {
        stats.hit("fault:last-handle-dropped");
    }
    for c in &d.children {
        if let (Some(k), Some((et, 1009))) = (c.kills.first(), c.exit) {
            if et > k.0 {
                stats.hit("fault:slow-death-after-kill");
            }
        }
        if let (Some((et, st)), Some(_)) = (c.exit, c.reaped) {
            if st < 1000 {
                stats.hit("fault:child-self-exit");
            }
            // exit inside a grace period: a signal was delivered earlier and the child died later by itself or by the signal
            if c.signals.iter().any(|s| s.3 && s.0 < et) && c.kills.iter().all(|k| k.0 > et) {
                stats.hit("probe:child-exit-inside-grace");
            }
        }
        if c.signals.iter().any(|s| s.3) && matches!(scn.children.first(), Some(_)) && c.kills.len() > 0 {
            stats.hit("probe:kill-after-signal");
        }
    }
    if d.task_end.is_some() {
        stats.hit("probe:job-task-ended");
    }
    if d.resolved.values().any(|v| v.len() >= 2) {
        stats.hit("probe:two-waiters-on-one-ticket");
    }
    stats.add("probe:ticket-cloned-after-first-poll", out.hist.iter().filter(|r| matches!(r.ev, Ev::Note { what: "late-clone", .. })).count() as u64);
    stats.add("fault:waiter-cancelled", out.hist.iter().filter(|r| matches!(r.ev, Ev::Note { what: "waiter-cancelled", .. })).count() as u64);
    if scn.senders.len() >= 2 {
        stats.hit("probe:concurrent-senders");
    }
    stats.add("probe:control-sent-from-inside-a-closure", out.hist.iter().filter(|r| matches!(r.ev, Ev::CtlSend { op, .. } if op >= e1::INNER)).count() as u64);
    stats.add("fault:job-task-stalled", out.hist.iter().filter(|r| matches!(r.ev, Ev::Note { what: "task-stalled", .. })).count() as u64);
}

pub fn e1_nontrivial(scn: &E1Scn, out: &RunOut) -> bool {
    scn.n_ops() >= 2 && out.hist.iter().any(|r| matches!(r.ev, Ev::Spawn { .. }))
}

pub const E1_RULE: &str = "scenario = control sequences per sender task (gaps, waiters), child behaviour per spawn, fault plan; \
drawn from a seeded PRNG (swarm: op mix, send style, fault kinds, scheduling policy vary per run). \
distinct = distinct hash of the full recorded history (every event with its virtual time); \
non-trivial = at least two controls were sent and at least one child was spawned";

// ------------------------------------------------------------------------------------------
// shrinking (shared)

pub fn shrink_e1(s: &E1Scn) -> Vec<E1Scn> {
    let out = shrink_e1_raw(s);
    match s.family.as_str() {
        // family-specific oracles rely on the shape of the scenario: keep it
        "hi-over-normal" => out.into_iter().filter(|c| c.senders == s.senders).collect(),
        "settled" => out.into_iter().filter(|c| c.senders.iter().all(|st| st.iter().all(|x| x.gap >= 2000))).collect(),
        _ => out,
    }
}

fn shrink_e1_raw(s: &E1Scn) -> Vec<E1Scn> {
    let mut out = Vec::new();
    // drop a whole sender
    if s.senders.len() > 1 {
        for i in 0..s.senders.len() {
            let mut c = s.clone();
            c.senders.remove(i);
            out.push(c);
        }
    }
    // drop a step
    for (si, steps) in s.senders.iter().enumerate() {
        for i in 0..steps.len() {
            let mut c = s.clone();
            let removed = c.senders[si].remove(i);
            // keep absolute timing of the following step
            if let Some(next) = c.senders[si].get_mut(i) {
                next.gap += removed.gap;
            }
            out.push(c);
        }
    }
    if s.drop_handles {
        let mut c = s.clone();
        c.drop_handles = false;
        out.push(c);
    }
    if !s.spawn_fail.is_empty() {
        for i in 0..s.spawn_fail.len() {
            let mut c = s.clone();
            c.spawn_fail.remove(i);
            out.push(c);
        }
    }
    if s.grouped || s.session {
        let mut c = s.clone();
        c.grouped = false;
        c.session = false;
        out.push(c);
    }
    // children
    if s.children.len() > 1 {
        for i in 0..s.children.len() {
            let mut c = s.clone();
            c.children.remove(i);
            out.push(c);
        }
    }
    for (i, ch) in s.children.iter().enumerate() {
        let d = ChildSpec::default();
        if *ch != d {
            let mut c = s.clone();
            c.children[i] = d.clone();
            out.push(c);
        }
        for f in 0..6 {
            let mut n = ch.clone();
            match f {
                0 if n.fail_signal => n.fail_signal = false,
                1 if n.fail_kill => n.fail_kill = false,
                2 if n.fail_wait => n.fail_wait = false,
                3 if n.self_exit.is_some() => n.self_exit = None,
                4 if n.code != 0 => n.code = 0,
                5 if n.grandchildren != 0 => n.grandchildren = 0,
                _ => continue,
            }
            let mut c = s.clone();
            c.children[i] = n;
            out.push(c);
        }
        if let Some(x) = ch.self_exit {
            for y in [0, 1, x / 2] {
                if y < x {
                    let mut c = s.clone();
                    c.children[i].self_exit = Some(y);
                    out.push(c);
                }
            }
        }
        if let SigReact::Exit(x) = ch.on_signal {
            for y in [0, 1, x / 2] {
                if y < x {
                    let mut c = s.clone();
                    c.children[i].on_signal = SigReact::Exit(y);
                    out.push(c);
                }
            }
        }
    }
    // steps
    for (si, steps) in s.senders.iter().enumerate() {
        for (i, st) in steps.iter().enumerate() {
            if st.waiters > 0 {
                let mut c = s.clone();
                c.senders[si][i].waiters = st.waiters - 1;
                out.push(c);
            }
            if st.cancel_after.is_some() {
                let mut c = s.clone();
                c.senders[si][i].cancel_after = None;
                out.push(c);
            }
            if st.late_clone.is_some() {
                let mut c = s.clone();
                c.senders[si][i].late_clone = None;
                out.push(c);
            }
            if st.inline {
                let mut c = s.clone();
                c.senders[si][i].inline = false;
                if c.senders[si][i].waiters == 0 {
                    c.senders[si][i].waiters = 1;
                }
                out.push(c);
            }
            for g in [0, 1, st.gap / 2] {
                if g < st.gap {
                    let mut c = s.clone();
                    c.senders[si][i].gap = g;
                    out.push(c);
                }
            }
            let simpler: Vec<Op> = match &st.op {
                Op::StopSig { sig, grace } => [0, 1, grace / 2].iter().filter(|g| **g < *grace).map(|g| Op::StopSig { sig: *sig, grace: *g }).collect(),
                Op::RestartSig { sig, grace } => [0, 1, grace / 2].iter().filter(|g| **g < *grace).map(|g| Op::RestartSig { sig: *sig, grace: *g }).collect(),
                Op::TryRestartSig { sig, grace } => {
                    [0, 1, grace / 2].iter().filter(|g| **g < *grace).map(|g| Op::TryRestartSig { sig: *sig, grace: *g }).collect()
                }
                Op::RunStall { .. } => vec![Op::Run],
                Op::RunAsync { ms } if *ms > 0 => vec![Op::Run, Op::RunAsync { ms: 0 }, Op::RunAsync { ms: 1 }],
                Op::RunAsync { .. } => vec![Op::Run],
                Op::SetHook { async_ms: Some(_) } => vec![Op::SetHook { async_ms: None }],
                Op::SetErr { async_ms: Some(_) } => vec![Op::SetErr { async_ms: None }],
                // a marker that sends from inside the job task: just the marker; the inner control sent from outside
                // instead; a synchronous / shorter closure; fewer waiters on the inner ticket
                Op::RunSend { async_ms, inner } => {
                    let mut v = vec![Op::Run, inner.op.clone()];
                    match async_ms {
                        Some(ms) if *ms > 1 => {
                            v.push(Op::RunSend { async_ms: Some(0), inner: inner.clone() });
                            v.push(Op::RunSend { async_ms: Some(1), inner: inner.clone() });
                        }
                        Some(_) => v.push(Op::RunSend { async_ms: None, inner: inner.clone() }),
                        None => {}
                    }
                    if inner.waiters > 0 {
                        let mut i2 = inner.clone();
                        i2.waiters -= 1;
                        v.push(Op::RunSend { async_ms: *async_ms, inner: i2 });
                    }
                    v
                }
                _ => vec![],
            };
            for op in simpler {
                if op != st.op {
                    let mut c = s.clone();
                    c.senders[si][i].op = op;
                    out.push(c);
                }
            }
        }
    }
    out
}

// ------------------------------------------------------------------------------------------
// C04: never two live processes per job

pub fn oracle_c04(out: &RunOut) -> Vec<Violation> {
    let mut vs = Vec::new();
    // every child carries the kill-on-drop wrapper (a dropped handle must not leave a live process behind)
    for r in &out.hist {
        if let Ev::Spawn { child, kill_on_drop: false, .. } = &r.ev {
            vs.push(Violation::new("no-kill-on-drop", "", format!("child {child} was spawned without the kill-on-drop wrapper")));
        }
    }
    // monitor over the history in log order
    let mut live: Vec<(u8, u32)> = Vec::new(); // (job, child): spawned, not yet reaped, not dropped
    for r in &out.hist {
        match &r.ev {
            Ev::Spawn { job, child, .. } => {
                if let Some((_, prev)) = live.iter().find(|(j, _)| j == job) {
                    vs.push(Violation::new(
                        "two-live-children",
                        "",
                        format!("job {job}: child {child} spawned at t={} (#{}) while child {prev} had been spawned and its exit status never collected", r.t, r.seq),
                    ));
                }
                live.push((*job, *child));
            }
            Ev::Reaped { child, .. } => live.retain(|(_, c)| c != child),
            // a handle dropped after its status was collected is gone; one dropped *unreaped* was merely
            // killed by kill-on-drop - its status was never collected, so no new process may follow it
            Ev::Dropped { child, reaped: true, .. } => live.retain(|(_, c)| c != child),
            _ => {}
        }
    }
    vs
}

pub struct C04;

impl Check for C04 {
    type Scn = E1Scn;
    fn property(&self) -> &'static str {
        "C04"
    }
    fn engine(&self) -> &'static str {
        "E1-jobsim"
    }
    fn budget(&self, tier: Tier) -> u64 {
        match tier {
            Tier::Quick => crate::model::exhaustive_count(3) + 800_000,
            Tier::Thorough => crate::model::exhaustive_count(4) + 100_000_000,
        }
    }
    fn generate(&self, rng: &mut Rng, idx: u64, tier: Tier) -> Option<E1Scn> {
        // first slice: bounded-exhaustive control sequences (length <= 3 quick, <= 4 thorough) x send style x
        // child class x spawn-failure plan, each under its own sampled schedule
        let (len, n) = match tier {
            Tier::Quick => (3, crate::model::exhaustive_count(3)),
            Tier::Thorough => (4, crate::model::exhaustive_count(4)),
        };
        if idx < n {
            return crate::model::exhaustive_scn(idx, len);
        }
        if idx % 400 == 7 {
            return Some(gen_cycles(rng));
        }
        // then random: even indices fault-free, odd indices fault-injecting
        let faults = idx % 2 == 1;
        Some(e1::gen_random(rng, &GenCfg { stalls: true, faults, max_ops: if idx % 5 == 0 { 40 } else { 12 }, max_senders: 3, allow_drop: true, kill_lag: faults }))
    }
    fn execute(&self, scn: &E1Scn, policy: Policy, sched_seed: u64) -> RunOut {
        e1::execute(scn, policy, sched_seed)
    }
    fn check(&self, scn: &E1Scn, out: &RunOut, stats: &mut Stats) -> Vec<Violation> {
        let d = digest(out);
        e1_stats(scn, &d, out, stats);
        stats.add("probe:spawns", d.children.len() as u64);
        let respawns = d.children.len().saturating_sub(1) as u64;
        stats.add("probe:respawn-after-reap", respawns);
        oracle_c04(out)
    }
    fn shrink(&self, scn: &E1Scn) -> Vec<E1Scn> {
        shrink_e1(scn)
    }
    fn nontrivial(&self, scn: &E1Scn, out: &RunOut) -> bool {
        e1_nontrivial(scn, out)
    }
    fn rule(&self) -> String {
        E1_RULE.into()
    }
    fn required_probes(&self, _tier: Tier) -> Vec<&'static str> {
        vec![
            "probe:respawn-after-reap",
            "fault:spawn-failure",
            "fault:child-self-exit",
            "probe:concurrent-senders",
            "fault:kill-error",
            "fault:wait-error",
            "fault:slow-death-after-kill",
        ]
    }
    fn components(&self) -> Value {
        e1_components()
    }
    fn assumptions(&self) -> Vec<String> {
        e1_assumptions()
    }
}


// ------------------------------------------------------------------------------------------
// helpers shared by C06 / C07 / C10

/// ops that carry a signal number, and how often each number is used in the scenario
fn sig_uses(scn: &E1Scn) -> std::collections::BTreeMap<i32, Vec<u32>> {
    let mut m: std::collections::BTreeMap<i32, Vec<u32>> = Default::default();
    for (id, _, _, st) in scn.all_ops() {
        let sig = match &st.op {
            Op::StopSig { sig, .. } | Op::RestartSig { sig, .. } | Op::TryRestartSig { sig, .. } | Op::Signal { sig } => Some(*sig),
            _ => None,
        };
        if let Some(sig) = sig {
            m.entry(expected_os_signal(sig)).or_default().push(id);
        }
    }
    m
}

fn all_ops(scn: &E1Scn) -> Vec<(u32, usize, usize, &Step)> {
    scn.all_ops()
}

/// largest virtual duration an installed async spawn hook or async error handler can add to a control
fn hook_slack(scn: &E1Scn) -> u64 {
    let mut h = 0;
    let mut e = 0;
    for (_, _, _, st) in all_ops(scn) {
        match st.op {
            Op::SetHook { async_ms: Some(ms) } => h = h.max(ms),
            Op::SetErr { async_ms: Some(ms) } => e = e.max(ms),
            _ => {}
        }
    }
    h + e
}

/// upper bound on the virtual time the job task can spend inside closures, hooks and handlers
fn busy_bound(scn: &E1Scn) -> u64 {
    let ops = all_ops(scn);
    let run_async: u64 = ops.iter().map(|o| o.3.op.marker_ms()).sum();
    let capable = ops.iter().filter(|o| o.3.op.spawn_capable()).count() as u64;
    // (a process that is slow to die keeps the job task inside the control that killed it: slow-death fault)
    let kills: u64 = ops.iter().filter(|o| o.3.op.spawn_capable() || matches!(o.3.op, Op::Stop | Op::StopSig { .. } | Op::Delete | Op::DeleteNow)).count() as u64;
    let lag: u64 = scn.children.iter().map(|c| c.kill_lag).max().unwrap_or(0);
    run_async + hook_slack(scn) * (2 * capable + 2) + lag * kills
}

/// where the signal of graceful op `id` landed: (t, seq, child, delivered)
fn graceful_signal(scn: &E1Scn, d: &Digest, id: u32) -> Option<Vec<(u64, u32, usize, bool)>> {
    let (sig, _) = scn.op(id).op.graceful()?;
    let os = expected_os_signal(sig);
    let uses = sig_uses(scn);
    if uses.get(&os).map(|v| v.len()).unwrap_or(0) != 1 {
        return None; // ambiguous attribution: not judged
    }
    let mut v = Vec::new();
    for (ci, c) in d.children.iter().enumerate() {
        for s in &c.signals {
            if s.2 == os {
                v.push((s.0, s.1, ci, s.3));
            }
        }
    }
    Some(v)
}

fn delete_now_before(scn: &E1Scn, d: &Digest, seq: u32) -> bool {
    all_ops(scn).iter().any(|(id, _, _, st)| st.op == Op::DeleteNow && d.send.get(id).map(|s| s.1 < seq).unwrap_or(false))
}

/// Normal-priority work must be held back between the graceful signal and the child's end.
fn oracle_normal_held(scn: &E1Scn, d: &Digest, stats: &mut Stats) -> Vec<Violation> {
    let mut vs = Vec::new();
    for (id, _, _, st) in all_ops(scn) {
        if st.op.graceful().is_none() {
            continue;
        }
        let Some(sigs) = graceful_signal(scn, d, id) else { continue };
        if sigs.len() != 1 || !sigs[0].3 {
            continue;
        }
        let (s, sseq, ci, _) = sigs[0];
        let c = &d.children[ci];
        if c.faults > 0 {
            continue; // an injected kill/wait/signal error legitimately ends the graceful control early
        }
        stats.hit("probe:grace-window-judged");
        let end_seq = c.reaped.map(|r| r.1).unwrap_or(u32::MAX);
        for (mid, starts) in &d.marker_start {
            for (t, seq, _, _) in starts {
                if *seq > sseq && *seq < end_seq {
                    vs.push(Violation::new(
                        "normal-control-ran-during-grace",
                        &format!("graceful={}", st.op.name()),
                        format!(
                            "marker op {mid} started at t={t} (#{seq}) after {} signalled child {ci} at t={s} (#{sseq}) and before that child ended (reaped #{end_seq})",
                            st.op.name()
                        ),
                    ));
                }
            }
        }
        // plain `signal` controls are Normal priority too
        for other in &c.signals {
            if other.1 > sseq && other.1 < end_seq {
                vs.push(Violation::new(
                    "normal-control-ran-during-grace",
                    &format!("graceful={} other=signal", st.op.name()),
                    format!("signal {} reached child {ci} at t={} (#{}) inside the grace period opened at t={s} (#{sseq})", other.2, other.0, other.1),
                ));
            }
        }
    }
    vs
}

// ------------------------------------------------------------------------------------------
// C06: graceful stop

pub fn gen_settled(rng: &mut Rng, graceful_heavy: bool) -> E1Scn {
    let mut sigs = e1::SigAlloc::new();
    let n = rng.range(1, 7);
    let mut steps = Vec::new();
    // one control of the scenario may carry a signal number without an OS equivalent: it must arrive as SIGTERM (15),
    // which is then kept out of the pool
    let mut odd: Option<i32> = if rng.chance(1, 6) { Some(*rng.pick(&[77, 0, 64, -1, 1000])) } else { None };
    if odd.is_some() {
        let _ = sigs.fresh();
    }
    for _ in 0..n {
        let grace = *rng.pick(&e1::DURS[..7]);
        let k = if graceful_heavy { rng.below(14) } else { rng.below(18) };
        let mut gsig = |sigs: &mut e1::SigAlloc| odd.take().unwrap_or_else(|| sigs.fresh());
        let op = match k {
            0 | 1 => Op::Start,
            2 | 3 => Op::StopSig { sig: gsig(&mut sigs), grace },
            4 | 5 => Op::RestartSig { sig: gsig(&mut sigs), grace },
            6 | 7 => Op::TryRestartSig { sig: gsig(&mut sigs), grace },
            8 => Op::Stop,
            9 => Op::Restart,
            10 => Op::TryRestart,
            11 => Op::Run,
            12 => Op::ToWait,
            13 => Op::Signal { sig: gsig(&mut sigs) },
            14 => Op::RunAsync { ms: *rng.pick(&e1::DURS[..6]) },
            15 => Op::SetHook { async_ms: if rng.chance(1, 2) { None } else { Some(*rng.pick(&e1::DURS[..5])) } },
            16 => Op::UnsetHook,
            _ => Op::Delete,
        };
        steps.push(Step { gap: 2000 + rng.below(3) * 1000, op, waiters: rng.below(3) as u8, inline: false, cancel_after: None, late_clone: None });
    }
    let n_children = rng.range(1, 4);
    let children = (0..n_children).map(|_| e1::child_class(rng.below(6), rng)).collect();
    E1Scn { family: "settled".into(), grouped: rng.chance(1, 4), session: false, children, spawn_fail: vec![], senders: vec![steps], drop_handles: false }
}

/// graceful op immediately followed (same instant or a few ms later) by controls of every priority
pub fn gen_graceful_burst(rng: &mut Rng, faults: bool, slow_death: bool) -> E1Scn {
    let mut sigs = e1::SigAlloc::new();
    let mut steps = vec![Step { gap: 0, op: Op::Start, waiters: 1, inline: rng.chance(1, 2), cancel_after: None, late_clone: None }];
    // (u64::MAX = Duration::MAX, "wait for ever")
    // (added after A18-C05r: graces just above 2^32 ms - 49.7 days - whose low 32 bits are a short time)
    let grace = if rng.chance(1, 25) {
        u64::MAX
    } else if rng.chance(1, 25) {
        (1u64 << 32) + *rng.pick(&[5u64, 104, 1000])
    } else {
        *rng.pick(&e1::DURS[..7])
    };
    // (77: no OS equivalent, sent as SIGTERM; 9: ForceStop as the "graceful" signal - the process dies at once, the
    // control still holds the normal queue back until that is observed, a restart still follows)
    let sig = match rng.below(20) {
        0 | 1 => 77,
        2 | 3 => 9,
        _ => sigs.fresh(),
    };
    let g = match rng.below(3) {
        0 => Op::StopSig { sig, grace },
        1 => Op::RestartSig { sig, grace },
        _ => Op::TryRestartSig { sig, grace },
    };
    if sig == 77 {
        // 77 is not a valid signal number: must be delivered as SIGTERM (15); keep 15 out of the pool
        let _ = sigs.fresh();
    }
    steps.push(Step { gap: *rng.pick(&[0u64, 0, 1, 5, 50]), op: g, waiters: rng.range(0, 3) as u8, inline: false, cancel_after: None, late_clone: None });
    // one in 12: a flood of high-priority controls (to_wait) during the grace period, then normal controls, then a few
    // more to_wait - what only a long streak of one kind of control brings out
    let flood = rng.chance(1, 12);
    if flood {
        for _ in 0..rng.range(8, 40) {
            steps.push(Step { gap: *rng.pick(&[0u64, 0, 1]), op: Op::ToWait, waiters: rng.below(2) as u8, inline: false, cancel_after: None, late_clone: None });
        }
    }
    let n_after = rng.range(0, 5);
    let mut second: Vec<Step> = Vec::new();
    for _ in 0..n_after {
        let op = match rng.below(9) {
            0 | 1 | 2 => Op::Run,
            3 => Op::RunAsync { ms: *rng.pick(&e1::DURS[..5]) },
            4 => Op::ToWait,
            5 => Op::DeleteNow,
            6 => Op::Signal { sig: sigs.fresh() },
            7 => Op::Start,
            _ => Op::Stop,
        };
        let st = Step { gap: *rng.pick(&[0u64, 0, 1, 2, 5, 10, 50, 100]), op, waiters: rng.below(2) as u8, inline: false, cancel_after: None, late_clone: None };
        if rng.chance(1, 3) {
            second.push(st);
        } else {
            steps.push(st);
        }
    }
    if flood {
        for _ in 0..rng.range(1, 3) {
            steps.push(Step { gap: *rng.pick(&[0u64, 1]), op: Op::ToWait, waiters: rng.below(2) as u8, inline: false, cancel_after: None, late_clone: None });
        }
    }
    let mut children: Vec<ChildSpec> = (0..rng.range(1, 3)).map(|_| e1::child_class(rng.below(6), rng)).collect();
    if flood {
        // the process has to outlive the flood for the grace period to matter
        children[0] = ChildSpec { on_signal: if rng.chance(1, 2) { SigReact::Ignore } else { SigReact::Exit(*rng.pick(&[50u64, 100, 1000])) }, ..Default::default() };
    }
    // bias the first child so that its reaction collides with the grace period
    if grace != u64::MAX && !flood && rng.chance(1, 2) {
        children[0] = match rng.below(4) {
            0 => ChildSpec { on_signal: SigReact::Exit(grace), ..Default::default() },
            1 => ChildSpec { on_signal: SigReact::Exit(grace.saturating_sub(1)), ..Default::default() },
            2 => ChildSpec { on_signal: SigReact::Exit(grace.saturating_add(1)), ..Default::default() },
            _ => ChildSpec { on_signal: SigReact::Ignore, self_exit: Some(grace / 2 + 1), ..Default::default() },
        };
    }
    let mut spawn_fail = vec![];
    if faults {
        if rng.chance(1, 3) {
            spawn_fail.push(1);
        }
        if rng.chance(1, 6) {
            children[0].fail_signal = true;
        }
        if rng.chance(1, 8) {
            children[0].fail_kill = true;
        }
        if grace != u64::MAX && rng.chance(1, 6) {
            // an I/O error from wait() in the middle of the grace period
            children[0].wait_fail_after = Some(*rng.pick(&[1u64, grace / 2 + 1, grace.saturating_sub(1).max(1)]));
        }
    }
    // slow death: the kill at the end of the grace period takes a while to take effect
    if slow_death && rng.chance(1, 6) {
        children[0].kill_lag = *rng.pick(&[1u64, 3, 50, 1000, 6000]);
    }
    let mut senders = vec![steps];
    if !second.is_empty() {
        senders.push(second);
    }
    E1Scn { family: "graceful-burst".into(), grouped: false, session: false, children, spawn_fail, senders, drop_handles: false }
}

pub fn oracle_c06(scn: &E1Scn, d: &Digest, stats: &mut Stats) -> Vec<Violation> {
    let mut vs = Vec::new();
    let uses = sig_uses(scn);
    // (1a) only requested signals, mapped to their OS numbers, ever reach a child
    for (ci, c) in d.children.iter().enumerate() {
        for s in &c.signals {
            if !uses.contains_key(&s.2) {
                vs.push(Violation::new("unexpected-signal", "", format!("child {ci} received signal {} at t={} which no control asked for", s.2, s.0)));
            }
        }
    }
    for (id, _, _, st) in all_ops(scn) {
        let Some((sig, grace)) = st.op.graceful() else { continue };
        let Some(sigs) = graceful_signal(scn, d, id) else { continue };
        if sigs.len() > 1 {
            vs.push(Violation::new("signal-repeated", st.op.name(), format!("op {id} ({}) delivered its signal {} times", st.op.name(), sigs.len())));
            continue;
        }
        if !(1..=31).contains(&sig) && !sigs.is_empty() {
            stats.hit("probe:unmappable-signal-sent-as-sigterm");
        }
        let Some(&(s, sseq, ci, delivered)) = sigs.first() else {
            stats.hit("probe:graceful-on-idle-job");
            continue;
        };
        let c = &d.children[ci];
        if !delivered {
            continue;
        }
        stats.hit("probe:graceful-on-running-job");
        // (1b) settled: the signal goes out at the instant the control was sent
        if scn.family == "settled" {
            let sent = d.send[&id].0;
            if s != sent {
                vs.push(Violation::new("signal-late", st.op.name(), format!("op {id} ({}) sent at t={sent} on a quiescent job but the signal went out at t={s}", st.op.name())));
            }
        }
        let deadline = s.saturating_add(grace);
        let ended_by_then = d.task_end.map(|te| te.0 <= deadline).unwrap_or(false);
        // (2) no force-kill inside the grace period
        for k in &c.kills {
            if k.0 >= s && k.0 < deadline && k.1 > sseq && !delete_now_before(scn, d, k.1) {
                vs.push(Violation::new(
                    "killed-before-grace-elapsed",
                    st.op.name(),
                    format!("op {id} ({}) signalled child {ci} at t={s} with grace {grace} ms but it was force-killed at t={} (#{})", st.op.name(), k.0, k.1),
                ));
            }
        }
        // (2b) nor is the process dropped alive inside the grace period - kill-on-drop is a force-kill too, and one whose
        // result nobody collects. Only a job told to go at once (delete_now), a job task that panicked, or the tear-down
        // of the scenario may do that; a job whose handles have all been dropped still sees its grace period out.
        if let Some((dt, dseq, false, false)) = c.dropped {
            let panicked = d.task_end.map(|t| t.2).unwrap_or(false);
            let alive_then = c.exit.map(|e| e.0 >= dt).unwrap_or(true);
            if dt >= s && dt < deadline && dseq > sseq && alive_then && c.faults == 0 && !panicked && !delete_now_before(scn, d, dseq) {
                stats.hit("probe:dropped-alive-inside-grace");
                vs.push(Violation::new(
                    "dropped-alive-before-grace-elapsed",
                    st.op.name(),
                    format!("op {id} ({}) signalled child {ci} at t={s} with grace {grace} ms but the job let go of it, alive and un-reaped, at t={dt} (job task ended: {:?})", st.op.name(), d.task_end.map(|t| t.0)),
                ));
            }
        }
        // (3) still alive at expiry => killed and reaped exactly then
        // (a failed kill or signal ends the graceful control; a failed wait() does not: the timer stays armed)
        let faulty = c.faults > c.wait_faults;
        if c.wait_faults > 0 {
            stats.hit("probe:wait-error-during-graceful-control");
        }
        // (dropped un-reaped before the deadline: legitimate only for a job told to go at once - delete_now, checked
        // below - or torn down with the scenario; a job whose handles are dropped still sees its grace period out)
        let dropped_early = c.dropped.map(|dr| !dr.2 && dr.0 <= deadline && dr.3).unwrap_or(false);
        match c.exit {
            Some((e, _)) if e < deadline => stats.hit("probe:child-exit-inside-grace"),
            Some((e, _)) if e == deadline => stats.hit("probe:exit-at-expiry-tie"),
            _ => {}
        }
        if expected_os_signal(sig) == 9 {
            // ForceStop as the graceful signal: the process is dead at once; nothing is left for the expiry to do
            stats.hit("probe:graceful-with-force-stop-signal");
            continue;
        }
        // (a process that is slow to die - the slow-death fault - ends up to `lag` after the kill at expiry)
        let lag = scn.children.get(ci.min(scn.children.len().saturating_sub(1))).map(|c| c.kill_lag).unwrap_or(0);
        if deadline.saturating_add(lag) >= d.run_end && d.run_end > 0 {
            // the grace period outlasts the scenario ("wait for ever"): its expiry is beyond what was observed
            stats.hit("probe:grace-period-outlasts-the-run");
            continue;
        }
        if !faulty && !ended_by_then && !dropped_early && !delete_now_before(scn, d, u32::MAX) {
            let late = match c.exit {
                None => true,
                // (a wait() error is reported to the error handler first: an asynchronous handler keeps the job task busy
                // for its duration, and the expiry is acted upon when it returns)
                Some((e, _)) => e > deadline.saturating_add(lag).saturating_add(if c.wait_faults > 0 { hook_slack(scn) } else { 0 }),
            };
            // (an end exactly at the deadline is a tie: it may be the kill at expiry or an earlier SIGKILL taking effect)
            let alive_at_expiry = c.exit.map(|e| e.0 > deadline).unwrap_or(true);
            let handler_delay = c.wait_faults > 0 && hook_slack(scn) > 0;
            if !late && alive_at_expiry && !handler_delay && !c.kills.iter().any(|k| k.0 == deadline) {
                vs.push(Violation::new(
                    "no-kill-at-grace-expiry",
                    st.op.name(),
                    format!("op {id} ({}) signalled child {ci} at t={s}, grace {grace} ms: still alive at t={deadline} but no kill was issued at that instant (kills: {:?})", st.op.name(), c.kills),
                ));
            }
            if lag > 0 && alive_at_expiry {
                stats.hit("probe:slow-death-at-grace-expiry");
                if let (Some((e, _)), Some((rt, _, _))) = (c.exit, c.reaped) {
                    // (a wait() error in the middle of the kill ends that control after the error handler: the job task
                    // goes back to its queue, and whatever it is in the middle of when the process finally dies - a user's
                    // async closure, a hook - finishes before the reap)
                    let slack = if c.wait_faults > 0 { busy_bound(scn) } else { 0 };
                    if c.wait_faults > 0 && rt != e {
                        stats.hit("probe:reap-delayed-after-wait-error-in-kill");
                    }
                    if rt < e || rt > e.saturating_add(slack) {
                        vs.push(Violation::new("not-reaped-at-grace-expiry", st.op.name(), format!("child {ci} died at t={e} after the kill at t={deadline} but was reaped at t={rt}")));
                    }
                }
            }
            if late {
                vs.push(Violation::new(
                    "no-kill-at-grace-expiry",
                    st.op.name(),
                    format!("op {id} ({}) signalled child {ci} at t={s}, grace {grace} ms: child still alive after t={deadline} (exit: {:?}, kills: {:?})", st.op.name(), c.exit, c.kills),
                ));
            } else if let Some((e, status)) = c.exit {
                if e == deadline && status == 1009 {
                    stats.hit("probe:kill-at-expiry");
                    match c.reaped {
                        Some((rt, _, _)) if rt == deadline => {}
                        other => vs.push(Violation::new(
                            "not-reaped-at-grace-expiry",
                            st.op.name(),
                            format!("child {ci} force-killed at t={deadline} but reaped: {other:?}"),
                        )),
                    }
                }
            }
        }
    }
    // (4) normal-priority work held back during the grace period
    vs.extend(oracle_normal_held(scn, d, stats));
    // (5) spawn budget: a spawn-capable control causes at most one spawn attempt
    let capable = all_ops(scn).iter().filter(|(_, _, _, st)| st.op.spawn_capable()).count();
    let attempts = d.children.len() + d.spawn_fails.len();
    if attempts > capable {
        vs.push(Violation::new(
            "unrequested-spawn",
            "",
            format!("{attempts} spawn attempts but only {capable} controls that may spawn (start/restart variants) were ever sent"),
        ));
    }
    // (5'/6) settled, fault-free: exact number of spawn attempts per control
    if scn.family == "settled" && !scn.has_faults() {
        let ops = all_ops(scn);
        for (k, (id, _, _, st)) in ops.iter().enumerate() {
            let Some(&(t, _)) = d.send.get(id) else { continue };
            let t_next = ops.get(k + 1).and_then(|(n, _, _, _)| d.send.get(n)).map(|s| s.0).unwrap_or(u64::MAX);
            if d.task_end.map(|te| te.0 <= t).unwrap_or(false) {
                continue;
            }
            // tie with a child transition: state at send time is ambiguous. (Controls of this family are seconds apart, so
            // a death *by signal or kill* at the send instant, and a spawn that follows such a death, are this control's own
            // doing - a zero grace period, a ForceStop - and the process was running when it arrived. Added after A18-C06r.)
            let killed_now = d.children.iter().any(|c| c.spawn_t < t && c.exit.map(|e| e.0 == t && e.1 >= 1000).unwrap_or(false));
            if d.children.iter().any(|c| (c.spawn_t == t && !killed_now) || c.exit.map(|e| e.0 == t && e.1 < 1000).unwrap_or(false)) {
                continue;
            }
            let running = d.children.iter().any(|c| c.spawn_t < t && c.exit.map(|e| e.0 > t || (e.0 == t && e.1 >= 1000)).unwrap_or(true));
            let expect = match st.op {
                Op::Start => (!running) as usize,
                Op::Restart | Op::RestartSig { .. } => 1,
                Op::TryRestart | Op::TryRestartSig { .. } => running as usize,
                _ => 0,
            };
            let got = d.children.iter().filter(|c| c.spawn_t >= t && c.spawn_t < t_next).count();
            if got != expect {
                vs.push(Violation::new(
                    "wrong-spawn-count",
                    &format!("control={} running={} expected={} got={}", st.op.name(), running, expect, got.min(3)),
                    format!("op {id} ({}) sent at t={t} with the job {}: expected {expect} spawn(s) before the next control at t={t_next}, saw {got}", st.op.name(), if running { "running" } else { "not running" }),
                ));
            }
            if matches!(st.op, Op::TryRestartSig { .. } | Op::TryRestart) && !running {
                stats.hit("probe:try-restart-on-idle");
            }
            // (1c) a signal-carrying control on a running job reaches the child (mapped to SIGTERM when the
            // requested signal has no OS equivalent), at the instant it was sent
            let carried = match st.op {
                Op::StopSig { sig, .. } | Op::RestartSig { sig, .. } | Op::TryRestartSig { sig, .. } | Op::Signal { sig } => Some(sig),
                _ => None,
            };
            if let (Some(sig), true) = (carried, running) {
                let os = expected_os_signal(sig);
                if uses.get(&os).map(|v| v.len()) == Some(1) {
                    let got = d.children.iter().any(|c| c.signals.iter().any(|s| s.2 == os && s.0 == t));
                    if !got {
                        vs.push(Violation::new(
                            "signal-not-delivered",
                            st.op.name(),
                            format!("op {id} ({}) sent at t={t} with signal {sig} (OS signal {os}) on a running job: no child received it", st.op.name()),
                        ));
                    }
                }
            }
        }
    }
    vs
}

pub struct C06;

impl Check for C06 {
    type Scn = E1Scn;
    fn property(&self) -> &'static str {
        "C06"
    }
    fn engine(&self) -> &'static str {
        "E1-jobsim"
    }
    fn budget(&self, tier: Tier) -> u64 {
        match tier {
            Tier::Quick => 1_000_000,
            Tier::Thorough => 100_000_000,
        }
    }
    fn generate(&self, rng: &mut Rng, idx: u64, _tier: Tier) -> Option<E1Scn> {
        Some(match idx % 4 {
            0 => gen_settled(rng, true),
            1 => gen_graceful_burst(rng, false, false),
            2 => gen_graceful_burst(rng, true, true),
            _ => e1::gen_random(rng, &GenCfg { stalls: false, faults: idx % 8 == 7, max_ops: 12, max_senders: 3, allow_drop: idx % 16 >= 8, kill_lag: idx % 8 == 3 }),
        })
    }
    fn execute(&self, scn: &E1Scn, policy: Policy, sched_seed: u64) -> RunOut {
        e1::execute(scn, policy, sched_seed)
    }
    fn check(&self, scn: &E1Scn, out: &RunOut, stats: &mut Stats) -> Vec<Violation> {
        let d = digest(out);
        e1_stats(scn, &d, out, stats);
        let mut vs = oracle_c06(scn, &d, stats);
        vs.extend(oracle_c04(out));
        vs
    }
    fn shrink(&self, scn: &E1Scn) -> Vec<E1Scn> {
        shrink_e1(scn)
    }
    fn nontrivial(&self, scn: &E1Scn, out: &RunOut) -> bool {
        e1_nontrivial(scn, out) && out.hist.iter().any(|r| matches!(r.ev, Ev::Signal { delivered: true, .. }))
    }
    fn rule(&self) -> String {
        format!("{E1_RULE}; for C06 additionally: a signal was delivered to a live child")
    }
    fn required_probes(&self, _tier: Tier) -> Vec<&'static str> {
        vec![
            "probe:graceful-on-running-job",
            "probe:graceful-on-idle-job",
            "probe:child-exit-inside-grace",
            "probe:exit-at-expiry-tie",
            "probe:kill-at-expiry",
            "probe:slow-death-at-grace-expiry",
            "probe:try-restart-on-idle",
            "probe:unmappable-signal-sent-as-sigterm",
        ]
    }
    fn components(&self) -> Value {
        e1_components()
    }
    fn assumptions(&self) -> Vec<String> {
        e1_assumptions()
    }
}

// ------------------------------------------------------------------------------------------
// C07: every control completes, every ticket resolves

fn hang_context(scn: &E1Scn, d: &Digest, id: u32) -> String {
    let st = scn.op(id);
    let mut flags: Vec<&str> = Vec::new();
    if let Some(sigs) = graceful_signal(scn, d, id) {
        if let Some(&(s, _, ci, delivered)) = sigs.first() {
            let (_, grace) = st.op.graceful().unwrap();
            if delivered {
                match d.children[ci].exit {
                    Some((e, _)) if e < s.saturating_add(grace) => flags.push("child-exit-inside-grace"),
                    Some((e, _)) if e == s.saturating_add(grace) => flags.push("child-exit-at-expiry"),
                    _ => flags.push("grace-expired"),
                }
            }
        }
    }
    if !d.spawn_fails.is_empty() {
        flags.push("spawn-failed");
    }
    if d.children.iter().any(|c| c.faults > 0) {
        flags.push("child-op-error");
    }
    if scn.drop_handles {
        flags.push("handles-dropped");
    }
    if d.task_end.map(|t| t.2).unwrap_or(false) {
        flags.push("task-panicked");
    }
    if d.children.is_empty() && d.spawn_fails.is_empty() {
        flags.push("never-started");
    }
    if d.resolved.get(&id).map(|v| !v.is_empty()).unwrap_or(false) {
        flags.push("other-waiter-resolved");
    }
    format!("control={} {}", st.op.name(), flags.join(","))
}

pub fn oracle_c07(scn: &E1Scn, d: &Digest, out: &RunOut, stats: &mut Stats) -> Vec<Violation> {
    let mut vs = Vec::new();
    let slack = hook_slack(scn);
    let _ = out;
    // (a) no waiter may be left to the 1 h watchdog
    let mut seen_hung: Vec<u32> = Vec::new();
    for (id, w, h) in &d.hung {
        if seen_hung.contains(id) {
            continue;
        }
        seen_hung.push(*id);
        let st = scn.op(*id);
        let sent = d.send.get(id).map(|s| s.0).unwrap_or(0);
        // the process that was running when to_wait was sent is still running at the watchdog instant
        // ... "running" as the job sees it: the end of a process counts from the instant the job task collected
        // it (a stalled job task may observe an exit late); an exit before the watchdog that is never collected at all
        // is not excused
        // (the bare NextEnding variant sent by hand travels at normal priority: every grace period ahead of it holds it back)
        let held_back: u64 = if st.op == Op::RawNextEnding { all_ops(scn).iter().filter_map(|o| o.3.op.graceful().map(|g| g.1)).fold(0u64, |a, g| a.saturating_add(g)) } else { 0 };
        let still_running = d.children.iter().any(|c| {
            c.spawn_t <= sent.saturating_add(busy_bound(scn)).saturating_add(held_back)
                && match (c.exit, c.reaped) {
                    (_, Some(r)) => r.0 >= *h,
                    (Some(e), None) => e.0 >= *h,
                    (None, None) => true,
                }
        });
        if st.op.waits_for_end() && still_running {
            // legitimately pending: a process is still running when the run ends
            stats.hit("probe:to-wait-on-immortal-child");
            continue;
        }
        // a grace period that outlasts the watchdog ("wait for ever") legitimately holds the graceful control itself,
        // every normal control behind it and every to_wait, for as long as the signalled process lives
        let held_by_grace = all_ops(scn).iter().any(|(gid, _, _, g)| {
            let Some((_, grace)) = g.op.graceful() else { return false };
            let Some(sigs) = graceful_signal(scn, d, *gid) else { return grace >= HOUR_MS };
            sigs.iter().any(|(s, _, ci, delivered)| {
                let c = &d.children[*ci];
                *delivered && *s <= *h && s.saturating_add(grace) > *h && c.reaped.map(|r| r.0 >= *h).unwrap_or(true)
            })
        });
        if held_by_grace && st.op.prio() != 2 && !d.task_end.map(|t| t.2).unwrap_or(false) {
            stats.hit("probe:held-by-a-grace-period-longer-than-the-watchdog");
            continue;
        }
        vs.push(Violation::new(
            "ticket-never-resolved",
            &hang_context(scn, d, *id),
            format!("ticket of op {id} ({}) sent at t={} was still unresolved 1 h (virtual) later for waiter {w}; nothing else in the system could make progress", st.op.name(), d.send.get(id).map(|s| s.0).unwrap_or(0)),
        ));
    }
    // (a'') a job whose handles have all been dropped ends (after draining its queue) - whoever still holds tickets
    let endless_grace = all_ops(scn).iter().any(|o| o.3.op.graceful().map(|g| g.1 >= HOUR_MS).unwrap_or(false));
    let stalled_forever = d.hung.iter().any(|h| !scn.op(h.0).op.waits_for_end());
    if scn.drop_handles && d.task_end.is_none() && !endless_grace && !stalled_forever && d.run_end > 0 {
        vs.push(Violation::new("job-survives-its-last-handle", "", "every Job handle was dropped, yet the job task was still running two (virtual) hours later".into()));
    }
    // ... and promptly: once the last sender has let go of its handle, what is left is the queue - every grace period
    // in it, every time-consuming control, every slow death - and nothing else (tickets are not handles)
    if let (true, Some(te), Some(hd)) = (scn.drop_handles && !endless_grace, d.task_end, d.handles_dropped) {
        let graces: u64 = all_ops(scn).iter().filter_map(|o| o.3.op.graceful().map(|g| g.1)).fold(0u64, |a, g| a.saturating_add(g));
        let gaps: u64 = scn.senders.iter().map(|st| st.iter().map(|s| s.gap).sum::<u64>()).max().unwrap_or(0);
        let bound = hd.0.saturating_add(busy_bound(scn)).saturating_add(graces).saturating_add(gaps).saturating_add(10);
        stats.hit("probe:job-ended-after-last-handle-dropped");
        if te.0 > bound && !te.2 {
            vs.push(Violation::new(
                "job-outlives-its-last-handle",
                "",
                format!("the last Job handle was dropped by t={} but the job task ended only at t={} (queue: at most {} ms of grace periods and {} ms of other work)", hd.0, te.0, graces, busy_bound(scn)),
            ));
        }
    }
    // (a') the job task never panics (no scenario contains a panicking closure or hook)
    if d.task_end.map(|t| t.2).unwrap_or(false) {
        vs.push(Violation::new("job-task-panicked", "", format!("the job task panicked at t={}", d.task_end.map(|t| t.0).unwrap_or(0))));
    }
    // (b) all clones / waiters of one ticket resolve at the same instant
    for (id, rs) in &d.resolved {
        if rs.len() >= 2 {
            stats.hit("probe:multi-waiter-ticket");
            let t0 = rs[0].1;
            if rs.iter().any(|r| r.1 != t0) {
                vs.push(Violation::new(
                    "waiters-resolve-at-different-times",
                    &format!("control={}", scn.op(*id).op.name()),
                    format!("op {id}: waiters resolved at {:?}", rs.iter().map(|r| (r.0, r.1)).collect::<Vec<_>>()),
                ));
            }
        }
    }
    // (c) markers run at most once
    for (id, starts) in &d.marker_start {
        if starts.len() > 1 {
            vs.push(Violation::new("control-ran-twice", "", format!("marker op {id} ran {} times", starts.len())));
        }
    }
    let task_end = d.task_end;
    for (id, _, _, st) in all_ops(scn) {
        let Some(&(sent, _)) = d.send.get(&id) else { continue };
        let rs = d.resolved.get(&id).cloned().unwrap_or_default();
        if rs.is_empty() {
            continue;
        }
        let latest = rs.iter().map(|r| r.1).max().unwrap();
        let earliest = rs.iter().map(|r| r.1).min().unwrap();
        // (f) job end resolves everything outstanding, promptly
        if let Some((g, _, _)) = task_end {
            if sent <= g && latest > g {
                vs.push(Violation::new(
                    "ticket-outlives-job",
                    &format!("control={}", st.op.name()),
                    format!("job task ended at t={g} but the ticket of op {id} ({}) sent at t={sent} resolved only at t={latest}", st.op.name()),
                ));
            }
            if sent > g && latest != sent {
                vs.push(Violation::new(
                    "ticket-on-dead-job-not-immediate",
                    "",
                    format!("op {id} sent at t={sent} after the job ended at t={g} resolved at t={latest}"),
                ));
            }
        }
        // (d) a marker's ticket resolves no later than the marker's completion (and not before it ran)
        if st.op.is_marker() {
            let done = if st.op.sync_marker() {
                d.marker_start.get(&id).and_then(|v| v.first()).map(|m| m.0)
            } else {
                d.marker_end.get(&id).and_then(|v| v.first()).map(|m| m.0)
            };
            match done {
                Some(t) => {
                    if latest > t {
                        vs.push(Violation::new(
                            "ticket-later-than-completion",
                            &format!("control={}", st.op.name()),
                            format!("op {id} ({}) completed at t={t} but its ticket resolved at t={latest}", st.op.name()),
                        ));
                    }
                    if earliest < t && task_end.map(|g| g.0 > earliest).unwrap_or(true) {
                        vs.push(Violation::new(
                            "ticket-before-completion",
                            &format!("control={}", st.op.name()),
                            format!("op {id} ({}) completed at t={t} but its ticket resolved already at t={earliest} with the job alive", st.op.name()),
                        ));
                    }
                }
                None => {
                    // never ran: only fine if the job ended ...
                    if task_end.map(|g| g.0 > earliest).unwrap_or(true) {
                        vs.push(Violation::new(
                            "ticket-resolved-control-never-ran",
                            "",
                            format!("marker op {id} never ran but its ticket resolved at t={earliest} with the job alive"),
                        ));
                    } else if let (Some(te), Some(snd)) = (task_end, d.send.get(&id)) {
                        // ... and ended because it was told to (delete, delete_now) or panicked: a job whose last handle
                        // is dropped stops only once its queue is drained, so a control queued before that still runs
                        let told = all_ops(scn).iter().any(|o| o.3.op.deletes() && d.send.get(&o.0).map(|x| x.1 < te.1).unwrap_or(false));
                        if !told && !te.2 && snd.1 < te.1 {
                            vs.push(Violation::new(
                                "queued-control-dropped-at-job-end",
                                "",
                                format!("marker op {id} was queued at t={} (#{}) on a live job that nobody deleted; the job task ended at t={} (#{}) without running it", snd.0, snd.1, te.0, te.1),
                            ));
                        }
                    }
                }
            }
        }
        // (e) graceful stop: no later than min(child exit, signal + grace) (+ hook time for the restart forms)
        let stalled = all_ops(scn).iter().any(|o| matches!(o.3.op, Op::RunStall { .. }));
        if let (Some((_, grace)), false) = (st.op.graceful(), stalled) {
            if let Some(sigs) = graceful_signal(scn, d, id) {
                if let [(s, _, ci, true)] = sigs[..] {
                    let c = &d.children[ci];
                    if c.faults == 0 && d.spawn_fails.is_empty() {
                        let lag = scn.children.get(ci.min(scn.children.len().saturating_sub(1))).map(|c| c.kill_lag).unwrap_or(0);
                        let bound = c.exit.map(|e| e.0).unwrap_or(u64::MAX).min(s.saturating_add(grace).saturating_add(lag));
                        let extra = if matches!(st.op, Op::StopSig { .. }) { 0 } else { slack };
                        if latest > bound.saturating_add(extra) {
                            vs.push(Violation::new(
                                "graceful-ticket-late",
                                &format!("control={}", st.op.name()),
                                format!(
                                    "op {id} ({}): signal at t={s}, grace {grace} ms, child exit {:?}: ticket must resolve by t={} but resolved at t={latest}",
                                    st.op.name(),
                                    c.exit,
                                    bound.saturating_add(extra)
                                ),
                            ));
                        }
                        stats.hit("probe:graceful-ticket-judged");
                    }
                }
            }
        }
    }
    // (g) injected failures reach the error handler: never more calls than faults
    let faults = d.spawn_fails.len() + d.children.iter().map(|c| c.faults as usize).sum::<usize>();
    if d.errs.len() > faults {
        vs.push(Violation::new("error-handler-overcalled", "", format!("{} error-handler calls for {faults} injected failures", d.errs.len())));
    }
    let ops = all_ops(scn);
    let handler_stable = scn.senders.len() == 1
        && matches!(ops.first().map(|o| &o.3.op), Some(Op::SetErr { .. }))
        && ops.iter().skip(1).all(|o| !matches!(o.3.op, Op::SetErr { .. } | Op::UnsetErr));
    if handler_stable && faults > 0 {
        stats.hit("probe:error-handler-stable-with-faults");
        if d.errs.len() != faults && d.task_end.is_none() {
            vs.push(Violation::new(
                "error-handler-call-count",
                "",
                format!("{faults} injected failures but {} error-handler calls (handler installed first and never changed)", d.errs.len()),
            ));
        }
    }
    vs
}

pub fn gen_c07(rng: &mut Rng, idx: u64) -> E1Scn {
    match idx % 6 {
        0 => gen_graceful_burst(rng, false, false),
        1 => gen_graceful_burst(rng, true, true),
        2 => {
            // error handler installed first, then random single-sender sequence with faults
            let mut s = e1::gen_random(rng, &GenCfg { stalls: false, faults: true, max_ops: 10, max_senders: 1, allow_drop: false, kill_lag: false });
            for st in s.senders[0].iter_mut() {
                if matches!(st.op, Op::SetErr { .. } | Op::UnsetErr) {
                    st.op = Op::Run;
                }
            }
            s.senders[0].insert(0, Step { gap: 0, op: Op::SetErr { async_ms: if rng.chance(1, 2) { None } else { Some(5) } }, waiters: 0, inline: false, cancel_after: None, late_clone: None });
            s.family = "errh-first".into();
            s
        }
        3 => gen_settled(rng, false),
        4 => e1::gen_random(rng, &GenCfg { stalls: true, faults: false, max_ops: 14, max_senders: 3, allow_drop: true, kill_lag: false }),
        _ => e1::gen_random(rng, &GenCfg { stalls: true, faults: true, max_ops: 14, max_senders: 3, allow_drop: true, kill_lag: true }),
    }
}

pub struct C07;

impl Check for C07 {
    type Scn = E1Scn;
    fn property(&self) -> &'static str {
        "C07"
    }
    fn engine(&self) -> &'static str {
        "E1-jobsim"
    }
    fn budget(&self, tier: Tier) -> u64 {
        match tier {
            Tier::Quick => 1_000_000,
            Tier::Thorough => 100_000_000,
        }
    }
    fn generate(&self, rng: &mut Rng, idx: u64, _tier: Tier) -> Option<E1Scn> {
        let mut s = gen_c07(rng, idx);
        // C07 is about waiters: make sure most tickets are awaited, some by several tasks
        for steps in s.senders.iter_mut() {
            for st in steps.iter_mut() {
                if st.waiters == 0 && !st.inline && rng.chance(2, 3) {
                    st.waiters = rng.range(1, 3) as u8;
                }
                if st.waiters >= 2 && st.cancel_after.is_none() && rng.chance(1, 5) {
                    st.cancel_after = Some(*rng.pick(&[0u64, 1, 5, 50]));
                }
                if st.waiters >= 1 && st.late_clone.is_none() && rng.chance(1, 5) {
                    st.late_clone = Some((*rng.pick(&[0u64, 1, 5, 50]), rng.chance(1, 2)));
                }
            }
        }
        Some(s)
    }
    fn execute(&self, scn: &E1Scn, policy: Policy, sched_seed: u64) -> RunOut {
        e1::execute(scn, policy, sched_seed)
    }
    fn check(&self, scn: &E1Scn, out: &RunOut, stats: &mut Stats) -> Vec<Violation> {
        let d = digest(out);
        e1_stats(scn, &d, out, stats);
        oracle_c07(scn, &d, out, stats)
    }
    fn shrink(&self, scn: &E1Scn) -> Vec<E1Scn> {
        shrink_e1(scn)
    }
    fn nontrivial(&self, scn: &E1Scn, out: &RunOut) -> bool {
        e1_nontrivial(scn, out) && out.hist.iter().any(|r| matches!(r.ev, Ev::Resolved { .. }))
    }
    fn rule(&self) -> String {
        format!("{E1_RULE}; for C07 additionally: at least one awaited ticket resolved")
    }
    fn required_probes(&self, _tier: Tier) -> Vec<&'static str> {
        vec![
            "probe:multi-waiter-ticket",
            "probe:job-ended-after-last-handle-dropped",
            "probe:child-exit-inside-grace",
            "probe:graceful-ticket-judged",
            "fault:spawn-failure",
            "fault:signal-error",
            "fault:kill-error",
            "fault:last-handle-dropped",
            "probe:job-task-ended",
            "probe:error-handler-stable-with-faults",
        ]
    }
    fn components(&self) -> Value {
        e1_components()
    }
    fn assumptions(&self) -> Vec<String> {
        e1_assumptions()
    }
}

// ------------------------------------------------------------------------------------------
// C10: ordering within and across priorities

pub fn oracle_c10(scn: &E1Scn, d: &Digest, stats: &mut Stats) -> Vec<Violation> {
    let mut vs = Vec::new();
    // each marker at most once
    for (id, starts) in &d.marker_start {
        if starts.len() > 1 {
            vs.push(Violation::new("control-ran-twice", "", format!("marker op {id} ran {} times", starts.len())));
        }
    }
    // ... and, on a job that nobody deleted, exactly once: a job whose handles are all dropped stops only after its
    // queue is drained (also while a grace period holds the normal queue back)
    if let Some(te) = d.task_end {
        let told = all_ops(scn).iter().any(|o| o.3.op.deletes() && d.send.get(&o.0).map(|x| x.1 < te.1).unwrap_or(false));
        if !told && !te.2 {
            if scn.drop_handles {
                stats.hit("probe:job-ended-by-dropping-its-handles");
            }
            for (id, _, _, st) in all_ops(scn) {
                if st.op.is_marker() && !d.marker_start.contains_key(&id) {
                    if let Some(snd) = d.send.get(&id) {
                        if snd.1 < te.1 {
                            vs.push(Violation::new(
                                "queued-control-dropped-at-job-end",
                                "",
                                format!("marker op {id} was queued at t={} on a live job that nobody deleted; the job task ended at t={} without running it", snd.0, te.0),
                            ));
                        }
                    }
                }
            }
        }
    }
    let task_end_t = d.task_end.map(|t| t.0);
    for (si, steps) in scn.senders.iter().enumerate() {
        // (1) per-sender FIFO among Normal markers
        let mut last: Option<(u32, u32)> = None; // (op, start seq)
        let mut skipped: Option<u32> = None; // an earlier marker of this sender that never ran
        for (i, st) in steps.iter().enumerate() {
            let id = E1Scn::op_id(si, i);
            if !st.op.is_marker() {
                continue;
            }
            match d.marker_start.get(&id).and_then(|v| v.first()) {
                Some(m) => {
                    if let Some((pid, pseq)) = last {
                        stats.hit("probe:fifo-pair-judged");
                        if m.1 < pseq {
                            vs.push(Violation::new(
                                "same-priority-reordered",
                                "",
                                format!("sender {si}: op {id} ran (#{}) before the earlier-sent op {pid} (#{pseq})", m.1),
                            ));
                        }
                    }
                    if let Some(sk) = skipped {
                        vs.push(Violation::new(
                            "earlier-control-skipped",
                            "",
                            format!("sender {si}: op {id} ran although the earlier-sent normal-priority op {sk} never ran"),
                        ));
                    }
                    last = Some((id, m.1));
                }
                None => {
                    if d.send.contains_key(&id) {
                        skipped = Some(id);
                    }
                }
            }
        }
        // (2) awaiting a later normal-priority ticket implies every earlier marker of that sender has run
        for (i, st) in steps.iter().enumerate() {
            let id = E1Scn::op_id(si, i);
            if st.op.prio() != 0 {
                continue;
            }
            let Some(rs) = d.resolved.get(&id) else { continue };
            let Some(first) = rs.iter().min_by_key(|r| r.2) else { continue };
            if task_end_t.map(|g| g <= first.1).unwrap_or(false) {
                continue; // resolved by (or after) the end of the job
            }
            for (j, earlier) in steps.iter().enumerate().take(i) {
                if !earlier.op.is_marker() {
                    continue;
                }
                let eid = E1Scn::op_id(si, j);
                let done_seq = if earlier.op.sync_marker() {
                    d.marker_start.get(&eid).and_then(|v| v.first()).map(|m| m.1)
                } else {
                    d.marker_end.get(&eid).and_then(|v| v.first()).map(|m| m.1)
                };
                stats.hit("probe:ticket-implies-earlier-judged");
                if done_seq.map(|s| s > first.2).unwrap_or(true) {
                    vs.push(Violation::new(
                        "ticket-resolved-before-earlier-control",
                        "",
                        format!("sender {si}: ticket of op {id} ({}) resolved at #{} but the earlier-sent op {eid} had not completed (completion: {done_seq:?})", st.op.name(), first.2),
                    ));
                }
            }
        }
    }
    // (1b) re-entrant sends: a marker sent from inside a closure on the job task is queued behind everything queued
    // before it and ahead of everything queued after it, whoever the other sender is (a send is one atomic step:
    // logged, then queued, so the log order of sends is the queue order)
    if scn.has_reentrant() {
        let mut sent: Vec<(u32, u32)> = all_ops(scn).iter().filter(|o| o.3.op.is_marker()).filter_map(|o| d.send.get(&o.0).map(|s| (s.1, o.0))).collect();
        sent.sort();
        let mut last: Option<(u32, u32)> = None;
        let mut skipped: Option<u32> = None;
        for (_, id) in sent {
            match d.marker_start.get(&id).and_then(|v| v.first()) {
                Some(m) => {
                    stats.hit("probe:reentrant-fifo-judged");
                    if let Some((pid, pseq)) = last {
                        if m.1 < pseq && (id >= e1::INNER || pid >= e1::INNER) {
                            vs.push(Violation::new(
                                "same-priority-reordered",
                                "reentrant",
                                format!("op {id} ran (#{}) before op {pid} (#{pseq}), which was queued earlier (one of them was sent from inside a closure on the job task)", m.1),
                            ));
                        }
                    }
                    if let Some(sk) = skipped {
                        if id >= e1::INNER || sk >= e1::INNER {
                            vs.push(Violation::new(
                                "earlier-control-skipped",
                                "reentrant",
                                format!("op {id} ran although op {sk}, queued earlier at the same priority, never ran (one of them was sent from inside a closure on the job task)"),
                            ));
                        }
                    }
                    last = Some((id, m.1));
                }
                None => skipped = Some(id),
            }
        }
    }
    // (3) urgent overtakes: once delete_now is enqueued, no normal-priority control starts
    for (id, _, _, st) in all_ops(scn) {
        if st.op != Op::DeleteNow {
            continue;
        }
        let Some(&(qt, q)) = d.send.get(&id) else { continue };
        if task_end_t.map(|g| g < qt).unwrap_or(false) {
            continue;
        }
        stats.hit("probe:delete-now-sent-to-live-job");
        for (mid, starts) in &d.marker_start {
            for m in starts {
                if m.1 > q {
                    vs.push(Violation::new(
                        "normal-ran-after-urgent-enqueued",
                        "",
                        format!("delete_now (op {id}) was enqueued at #{q} (t={qt}) but normal-priority marker op {mid} started afterwards at #{} (t={})", m.1, m.0),
                    ));
                }
            }
        }
        // ... and the job ends at that very instant unless a control that takes virtual time was in progress
        let busy = hook_slack(scn) > 0 || all_ops(scn).iter().any(|o| o.3.op.marker_ms() > 0);
        if !busy && d.children.iter().all(|c| c.faults == 0) {
            match d.task_end {
                Some((g, _, _)) if g == qt => stats.hit("probe:delete-now-immediate"),
                other => vs.push(Violation::new(
                    "urgent-not-immediate",
                    "",
                    format!("delete_now (op {id}) enqueued at t={qt} with nothing time-consuming in progress, but the job task ended: {other:?}"),
                )),
            }
        }
    }
    // (4) high overtakes normal: family-specific
    if scn.family == "hi-over-normal" {
        for (id, _, _, st) in all_ops(scn) {
            if st.op == Op::ToWait {
                let sent = d.send[&id].0;
                let rs = d.resolved.get(&id).cloned().unwrap_or_default();
                stats.hit("probe:high-vs-normal-burst");
                if rs.iter().any(|r| r.1 != sent) || rs.is_empty() {
                    vs.push(Violation::new(
                        "high-did-not-overtake-normal",
                        "",
                        format!("burst [start, to_wait] on an idle finished job at t={sent}: to_wait must see the finished state and resolve at once, resolved: {:?}", rs.iter().map(|r| r.1).collect::<Vec<_>>()),
                    ));
                }
            }
        }
    }
    // (5) an armed grace timer holds normal work back
    vs.extend(oracle_normal_held(scn, d, stats));
    vs
}

pub fn gen_hi_over_normal(rng: &mut Rng) -> E1Scn {
    // first child exits by itself -> job idle in Finished; then an atomic burst [start, to_wait]
    let d1 = *rng.pick(&[0u64, 1, 5, 50]);
    let second = if rng.chance(1, 2) { ChildSpec { self_exit: Some(*rng.pick(&[1u64, 5, 50, 100])), ..Default::default() } } else { ChildSpec::default() };
    let mut steps = vec![Step { gap: 0, op: Op::Start, waiters: 0, inline: false, cancel_after: None, late_clone: None }];
    let mut burst = vec![Step { gap: 2000, op: Op::Start, waiters: 0, inline: false, cancel_after: None, late_clone: None }];
    for _ in 0..rng.below(3) {
        burst.push(Step { gap: 0, op: Op::Run, waiters: 0, inline: false, cancel_after: None, late_clone: None });
    }
    burst.push(Step { gap: 0, op: Op::ToWait, waiters: rng.range(1, 2) as u8, inline: false, cancel_after: None, late_clone: None });
    steps.extend(burst);
    E1Scn {
        family: "hi-over-normal".into(),
        grouped: false,
        session: false,
        children: vec![ChildSpec { self_exit: Some(d1), code: rng.below(2) as i32, ..Default::default() }, second],
        spawn_fail: vec![],
        senders: vec![steps],
        drop_handles: false,
    }
}

/// One job through a great many runs: (start, stop), restart, or start + natural exit, repeated 40-300 times, then a
/// few ordinary controls. What a counter, an index or a buffer does at its 256th use.
pub fn gen_cycles(rng: &mut Rng) -> E1Scn {
    let n = *rng.pick(&[40u64, 130, 260, 300]);
    let body = rng.below(3);
    let mut steps: Vec<Step> = Vec::new();
    let st = |gap: u64, op: Op| Step { gap, op, waiters: 0, inline: false, cancel_after: None, late_clone: None };
    let self_exit = if body == 2 { Some(1) } else { None };
    for _ in 0..n {
        match body {
            0 => {
                steps.push(st(3, Op::Start));
                steps.push(st(3, Op::Stop));
            }
            1 => steps.push(st(3, Op::Restart)),
            _ => steps.push(st(3, Op::Start)),
        }
    }
    // then: start, and start again while it runs; a probe; a try-restart
    let mut tail = vec![st(3, Op::Start), st(3, Op::Start), st(3, Op::Run), st(3, Op::TryRestart), st(3, Op::Run)];
    for t in tail.iter_mut() {
        t.waiters = 1;
    }
    steps.extend(tail);
    let child = ChildSpec { self_exit, on_signal: SigReact::Exit(0), ..Default::default() };
    // the runs after the cycles are long-lived
    let last = ChildSpec { on_signal: SigReact::Exit(0), ..Default::default() };
    let mut children: Vec<ChildSpec> = Vec::new();
    // (child specs are indexed by spawn number, the last one is reused for all later spawns)
    let cycles_spawns = n as usize;
    if self_exit.is_some() {
        children = vec![child; cycles_spawns];
        children.push(last);
    } else {
        children.push(last);
    }
    E1Scn { family: "cycles".into(), grouped: false, session: false, children, spawn_fail: vec![], senders: vec![steps], drop_handles: false }
}

pub fn gen_order(rng: &mut Rng) -> E1Scn {
    // marker-heavy mixes from 1-3 senders, bursts and trickles, sometimes an armed timer, sometimes delete_now
    let mut sigs = e1::SigAlloc::new();
    let n_senders = rng.range(1, 3) as usize;
    let mut senders: Vec<Vec<Step>> = vec![Vec::new(); n_senders];
    if rng.chance(2, 3) {
        senders[0].push(Step { gap: 0, op: Op::Start, waiters: 0, inline: rng.chance(1, 2), cancel_after: None, late_clone: None });
    }
    let n = rng.range(2, 14);
    let trickle = rng.chance(1, 2);
    for _ in 0..n {
        let s = rng.below(n_senders as u64) as usize;
        let op = match rng.below(20) {
            0..=8 => Op::Run,
            9 | 10 => Op::RunAsync { ms: *rng.pick(&[0u64, 1, 5, 10]) },
            11 => Op::ToWait,
            12 => Op::DeleteNow,
            13 => Op::StopSig { sig: sigs.fresh(), grace: *rng.pick(&[0u64, 5, 50, 100]) },
            14 => Op::TryRestartSig { sig: sigs.fresh(), grace: *rng.pick(&[0u64, 5, 50]) },
            15 => Op::Start,
            16 => Op::Stop,
            17 => Op::Restart,
            18 => Op::Signal { sig: sigs.fresh() },
            _ => Op::Delete,
        };
        let gap = if trickle { *rng.pick(&[0u64, 0, 1, 2, 5, 10]) } else { 0 };
        senders[s].push(Step { gap, op, waiters: rng.below(2) as u8, inline: rng.chance(1, 6), cancel_after: None, late_clone: None });
    }
    let children = (0..rng.range(1, 3)).map(|_| e1::child_class(rng.below(6), rng)).collect();
    E1Scn { family: "order".into(), grouped: false, session: false, children, spawn_fail: vec![], senders, drop_handles: false }
}

pub struct C10;

impl Check for C10 {
    type Scn = E1Scn;
    fn property(&self) -> &'static str {
        "C10"
    }
    fn engine(&self) -> &'static str {
        "E1-jobsim"
    }
    fn budget(&self, tier: Tier) -> u64 {
        match tier {
            Tier::Quick => 1_000_000,
            Tier::Thorough => 100_000_000,
        }
    }
    fn generate(&self, rng: &mut Rng, idx: u64, _tier: Tier) -> Option<E1Scn> {
        Some(match idx % 5 {
            0 => gen_hi_over_normal(rng),
            1 | 2 => gen_order(rng),
            3 => gen_graceful_burst(rng, false, false),
            _ => e1::gen_random(rng, &GenCfg { stalls: true, faults: false, max_ops: 16, max_senders: 3, allow_drop: idx % 3 == 0, kill_lag: false }),
        })
    }
    fn execute(&self, scn: &E1Scn, policy: Policy, sched_seed: u64) -> RunOut {
        e1::execute(scn, policy, sched_seed)
    }
    fn check(&self, scn: &E1Scn, out: &RunOut, stats: &mut Stats) -> Vec<Violation> {
        let d = digest(out);
        e1_stats(scn, &d, out, stats);
        oracle_c10(scn, &d, stats)
    }
    fn shrink(&self, scn: &E1Scn) -> Vec<E1Scn> {
        shrink_e1(scn)
    }
    fn nontrivial(&self, scn: &E1Scn, out: &RunOut) -> bool {
        scn.n_ops() >= 2 && out.hist.iter().filter(|r| matches!(r.ev, Ev::MarkerStart { .. } | Ev::Resolved { .. })).count() >= 2
    }
    fn rule(&self) -> String {
        "scenario as for the other E1 checks (marker-heavy control mixes from 1-3 sender tasks, bursts and trickles, armed timers, delete_now / to_wait); distinct = distinct hash of the full recorded history; non-trivial = at least two controls sent and at least two marker executions / ticket resolutions observed".into()
    }
    fn required_probes(&self, _tier: Tier) -> Vec<&'static str> {
        vec![
            "probe:fifo-pair-judged",
            "probe:job-ended-by-dropping-its-handles",
            "probe:ticket-implies-earlier-judged",
            "probe:delete-now-sent-to-live-job",
            "probe:high-vs-normal-burst",
            "probe:concurrent-senders",
            "probe:grace-window-judged",
        ]
    }
    fn components(&self) -> Value {
        e1_components()
    }
    fn assumptions(&self) -> Vec<String> {
        e1_assumptions()
    }
}
