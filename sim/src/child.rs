//! SimChild: the simulated child process behind the *production* `TokioChildWrapper` trait,
//! installed through hook H2 (spawn interposer).

use std::future::Future;
use std::io::{Error, ErrorKind, Result};
use std::os::unix::process::ExitStatusExt;
use std::process::ExitStatus;
use std::sync::Arc;

use process_wrap::tokio::{KillOnDrop, ProcessGroup, ProcessSession, TokioChildWrapper, TokioCommandWrap};
use serde::{Deserialize, Serialize};
use tokio::process::Child;
use tokio::sync::Notify;
use watchexec_supervisor::command::{Command, Program};

use crate::ctx::{log, log_at, ms, now_ms, with_run, Ev};

#[derive(Clone, Debug, Serialize, Deserialize, Hash, PartialEq, Eq)]
pub enum SigReact {
    /// catchable signals are ignored
    Ignore,
    /// dies `0` ms after the first catchable signal (status: terminated by that signal)
    Exit(u64),
}

#[derive(Clone, Debug, Serialize, Deserialize, Hash, PartialEq, Eq)]
pub struct ChildSpec {
    /// exits by itself this many ms after spawn with `code`
    pub self_exit: Option<u64>,
    pub code: i32,
    pub on_signal: SigReact,
    /// fault: the first `signal()` call returns Err
    pub fail_signal: bool,
    /// fault: the first `start_kill()` call returns Err
    pub fail_kill: bool,
    /// fault: the first `wait()` call returns Err
    pub fail_wait: bool,
    /// other members of the child's process group (they react to signals like the leader,
    /// but only receive group-directed signals/kills)
    pub grandchildren: u8,
    /// slow death ("uninterruptible sleep", frozen cgroup): a successful kill takes effect this many ms later;
    /// until then the process is alive and wait() does not return
    #[serde(default)]
    pub kill_lag: u64,
    /// fault: a wait() that is pending this many ms after the spawn fails there and then (once) - an I/O error while
    /// the supervisor is asleep on something else, not at the first poll
    #[serde(default)]
    pub wait_fail_after: Option<u64>,
}

impl Default for ChildSpec {
    fn default() -> Self {
        Self {
            self_exit: None,
            code: 0,
            on_signal: SigReact::Exit(0),
            fail_signal: false,
            fail_kill: false,
            fail_wait: false,
            grandchildren: 0,
            kill_lag: 0,
            wait_fail_after: None,
        }
    }
}

/// status encoding in histories: exit code c -> c; killed by signal s -> 1000 + s
pub fn status_to_exit(st: i32) -> ExitStatus {
    if st >= 1000 {
        ExitStatus::from_raw(st - 1000)
    } else {
        ExitStatus::from_raw((st & 0xff) << 8)
    }
}

pub struct ChildState {
    pub job: u8,
    pub spec: ChildSpec,
    pub spawned_at: u64,
    /// (death instant, status) once determined
    pub death: Option<(u64, i32)>,
    pub exit_logged: bool,
    pub reaped: bool,
    pub dropped: bool,
    pub sig_failed: bool,
    pub kill_failed: bool,
    pub wait_failed: bool,
    pub late_wait_failed: bool,
    pub kill_on_drop: bool,
    pub group: bool,
    /// group members still alive (apart from the leader)
    pub members_alive: u8,
    pub notify: Arc<Notify>,
}

#[derive(Default)]
pub struct World {
    /// per job: spec of spawn k = specs[job][min(k, len-1)]
    pub specs: Vec<Vec<ChildSpec>>,
    /// per job: spawn *attempt* indices that fail
    pub spawn_fail: Vec<Vec<u32>>,
    pub attempts: Vec<u32>,
    pub spawned: Vec<u32>,
    pub children: Vec<ChildState>,
    /// fault counters (fired, not configured)
    pub faults: Faults,
}

#[derive(Default, Clone, Debug)]
pub struct Faults {
    pub spawn_fail: u32,
    pub signal_fail: u32,
    pub kill_fail: u32,
    pub wait_fail: u32,
}

impl World {
    pub fn ensure_job(&mut self, job: usize) {
        while self.specs.len() <= job {
            self.specs.push(vec![ChildSpec::default()]);
            self.spawn_fail.push(vec![]);
            self.attempts.push(0);
            self.spawned.push(0);
        }
    }
}

pub fn job_of(command: &Command) -> u8 {
    match &command.program {
        Program::Exec { prog, args } if prog.as_os_str() == "simjob" => {
            args.first().and_then(|a| a.parse().ok()).unwrap_or(0)
        }
        _ => 0,
    }
}

pub fn sim_command(job: u8, grouped: bool, session: bool) -> Arc<Command> {
    Arc::new(Command {
        program: Program::Exec { prog: "simjob".into(), args: vec![job.to_string()] },
        options: watchexec_supervisor::command::SpawnOptions { grouped, session, ..Default::default() },
    })
}

/// Install the spawn interposer on this thread (idempotent).
pub fn install_interposer() {
    watchexec_supervisor::verif::set_spawn_interposer(Some(Box::new(
        |command: &Arc<Command>, spawnable: &mut TokioCommandWrap| -> Result<Box<dyn TokioChildWrapper>> {
            let job = job_of(command);
            let now = now_ms();
            let hook_env = spawnable
                .command()
                .as_std()
                .get_envs()
                .find(|(k, _)| *k == "SIM_HOOK")
                .and_then(|(_, v)| v.and_then(|v| v.to_str()).and_then(|v| v.parse::<i64>().ok()))
                .unwrap_or(-1);
            let kill_on_drop = spawnable.has_wrap::<KillOnDrop>();
            let group = spawnable.has_wrap::<ProcessGroup>();
            let session = spawnable.has_wrap::<ProcessSession>();
            let res = with_run(|r| {
                let w = &mut r.world;
                w.ensure_job(job as usize);
                let attempt = w.attempts[job as usize];
                w.attempts[job as usize] += 1;
                if w.spawn_fail[job as usize].contains(&attempt) {
                    w.faults.spawn_fail += 1;
                    return Err(attempt);
                }
                let k = w.spawned[job as usize] as usize;
                w.spawned[job as usize] += 1;
                let specs = &w.specs[job as usize];
                let spec = specs[k.min(specs.len() - 1)].clone();
                let death = spec.self_exit.map(|d| (now + d, spec.code));
                let id = w.children.len() as u32;
                let members = spec.grandchildren;
                w.children.push(ChildState {
                    job,
                    spec,
                    spawned_at: now,
                    death,
                    exit_logged: false,
                    reaped: false,
                    dropped: false,
                    sig_failed: false,
                    kill_failed: false,
                    wait_failed: false,
                    late_wait_failed: false,
                    kill_on_drop,
                    group: group || session,
                    members_alive: members,
                    notify: Arc::new(Notify::new()),
                });
                Ok(id)
            });
            match res {
                Err(attempt) => {
                    log(Ev::SpawnFail { job, attempt });
                    Err(Error::new(ErrorKind::NotFound, format!("sim: spawn attempt {attempt} of job {job} fails")))
                }
                Ok(id) => {
                    log(Ev::Spawn { job, child: id, hook_env, kill_on_drop, group, session });
                    Ok(Box::new(SimChild { id }))
                }
            }
        },
    )));
}

#[derive(Debug)]
pub struct SimChild {
    pub id: u32,
}

/// Log the child's death if it has happened by `now` and has not been logged.
fn note_exit(id: u32, now: u64) {
    let ev = with_run(|r| {
        let c = &mut r.world.children[id as usize];
        match c.death {
            Some((at, st)) if at <= now && !c.exit_logged => {
                c.exit_logged = true;
                Some((at, st))
            }
            _ => None,
        }
    });
    if let Some((at, st)) = ev {
        log_at(at, Ev::Exit { child: id, status: st });
    }
}

/// End-of-run sweep: log deaths that nobody observed.
pub fn finalize_world() {
    let now = now_ms();
    let n = with_run(|r| r.world.children.len());
    for id in 0..n {
        note_exit(id as u32, now);
        let (g, m, grp) = with_run(|r| {
            let c = &r.world.children[id];
            (c.spec.grandchildren, c.members_alive, c.group)
        });
        if g > 0 {
            log(Ev::Note { what: if grp { "group-members-alive" } else { "ungrouped-members-alive" }, a: id as i64, b: m as i64 });
        }
    }
}

impl SimChild {
    fn is_dead(&self, now: u64) -> bool {
        with_run(|r| matches!(r.world.children[self.id as usize].death, Some((at, _)) if at <= now))
    }
}

impl TokioChildWrapper for SimChild {
    fn inner(&self) -> &Child {
        unreachable!("SimChild has no inner tokio Child")
    }
    fn inner_mut(&mut self) -> &mut Child {
        unreachable!("SimChild has no inner tokio Child")
    }
    fn into_inner(self: Box<Self>) -> Child {
        unreachable!("SimChild has no inner tokio Child")
    }

    fn id(&self) -> Option<u32> {
        let reaped = with_run(|r| r.world.children[self.id as usize].reaped);
        if reaped {
            None
        } else {
            Some(100_000 + self.id)
        }
    }

    fn start_kill(&mut self) -> Result<()> {
        let now = now_ms();
        note_exit(self.id, now);
        let id = self.id;
        let fail = with_run(|r| {
            let c = &mut r.world.children[id as usize];
            if c.spec.fail_kill && !c.kill_failed {
                c.kill_failed = true;
                r.world.faults.kill_fail += 1;
                true
            } else {
                false
            }
        });
        if fail {
            log(Ev::KillFail { child: id });
            // (a real errno, as the kernel would give: EPERM or ESRCH, a function of the child's number)
            return Err(Error::from_raw_os_error(if id % 2 == 0 { 1 } else { 3 }));
        }
        log(Ev::Kill { child: id });
        let notify = with_run(|r| {
            let c = &mut r.world.children[id as usize];
            let alive = !matches!(c.death, Some((at, _)) if at <= now);
            if alive {
                let at = now + c.spec.kill_lag;
                // (a death already due earlier stays)
                if !matches!(c.death, Some((old, _)) if old <= at) {
                    c.death = Some((at, 1009));
                }
            }
            if c.group {
                c.members_alive = 0;
            }
            c.notify.clone()
        });
        note_exit(id, now);
        notify.notify_waiters();
        Ok(())
    }

    fn try_wait(&mut self) -> Result<Option<ExitStatus>> {
        let now = now_ms();
        note_exit(self.id, now);
        let id = self.id;
        let st = with_run(|r| {
            let c = &mut r.world.children[id as usize];
            match c.death {
                Some((at, st)) if at <= now => {
                    let first = !c.reaped;
                    c.reaped = true;
                    Some((st, first))
                }
                _ => None,
            }
        });
        Ok(st.map(|(st, first)| {
            if first {
                log(Ev::Reaped { child: id, status: st });
            }
            status_to_exit(st)
        }))
    }

    fn wait(&mut self) -> Box<dyn Future<Output = Result<ExitStatus>> + Send + '_> {
        let id = self.id;
        Box::new(async move {
            let fail = with_run(|r| {
                let c = &mut r.world.children[id as usize];
                if c.spec.fail_wait && !c.wait_failed {
                    c.wait_failed = true;
                    r.world.faults.wait_fail += 1;
                    true
                } else {
                    false
                }
            });
            if fail {
                log(Ev::WaitFail { child: id });
                return Err(Error::from_raw_os_error(if id % 2 == 0 { 10 } else { 4 }));
            }
            loop {
                let now = now_ms();
                let (death, notify, start) =
                    with_run(|r| (r.world.children[id as usize].death, r.world.children[id as usize].notify.clone(), r.start));
                // the late one-shot failure: due at spawn + d, if the process is still alive then
                let late = with_run(|r| {
                    let c = &r.world.children[id as usize];
                    if c.late_wait_failed {
                        None
                    } else {
                        c.spec.wait_fail_after.map(|d| c.spawned_at + d)
                    }
                });
                if let Some(at) = late {
                    let dead = matches!(death, Some((d, _)) if d <= now);
                    if now >= at && !dead {
                        with_run(|r| {
                            r.world.children[id as usize].late_wait_failed = true;
                            r.world.faults.wait_fail += 1;
                        });
                        log(Ev::WaitFail { child: id });
                        return Err(Error::from_raw_os_error(if id % 2 == 0 { 4 } else { 10 }));
                    }
                }
                let late_sleep = late.filter(|at| *at > now).map(|at| start + ms(at));
                match death {
                    Some((at, st)) if at <= now => {
                        note_exit(id, now);
                        let first = with_run(|r| {
                            let c = &mut r.world.children[id as usize];
                            let f = !c.reaped;
                            c.reaped = true;
                            f
                        });
                        if first {
                            log(Ev::Reaped { child: id, status: st });
                        }
                        return Ok(status_to_exit(st));
                    }
                    Some((at, _)) => {
                        let notified = notify.notified();
                        let until = match late_sleep {
                            Some(l) if l < start + ms(at) => l,
                            _ => start + ms(at),
                        };
                        tokio::select! {
                            biased;
                            _ = notified => {}
                            _ = tokio::time::sleep_until(until) => {}
                        }
                    }
                    None => match late_sleep {
                        Some(l) => {
                            let notified = notify.notified();
                            tokio::select! {
                                biased;
                                _ = notified => {}
                                _ = tokio::time::sleep_until(l) => {}
                            }
                        }
                        None => notify.notified().await,
                    },
                }
            }
        })
    }

    fn signal(&self, sig: i32) -> Result<()> {
        let now = now_ms();
        let id = self.id;
        note_exit(id, now);
        let dead = self.is_dead(now);
        let fail = with_run(|r| {
            let c = &mut r.world.children[id as usize];
            if c.spec.fail_signal && !c.sig_failed {
                c.sig_failed = true;
                r.world.faults.signal_fail += 1;
                true
            } else {
                false
            }
        });
        if fail {
            log(Ev::SignalFail { child: id, sig });
            return Err(Error::from_raw_os_error(if id % 2 == 0 { 3 } else { 1 }));
        }
        log(Ev::Signal { child: id, sig, delivered: !dead });
        if dead {
            return Ok(());
        }
        let notify = with_run(|r| {
            let c = &mut r.world.children[id as usize];
            let new_death = if sig == 9 {
                // SIGKILL by signal() is as slow to take effect as by kill() (slow-death fault)
                Some((now + c.spec.kill_lag, 1009))
            } else {
                match c.spec.on_signal {
                    SigReact::Ignore => None,
                    SigReact::Exit(d) => Some((now + d, 1000 + sig)),
                }
            };
            if let Some((at, st)) = new_death {
                match c.death {
                    Some((old, _)) if old <= at => {}
                    _ => c.death = Some((at, st)),
                }
                if c.group {
                    // group-directed: members react like the leader
                    c.members_alive = 0;
                }
            }
            c.notify.clone()
        });
        note_exit(id, now);
        notify.notify_waiters();
        Ok(())
    }
}

impl Drop for SimChild {
    fn drop(&mut self) {
        let id = self.id;
        // may run during runtime shutdown, or (on a harness abort) after the run was taken away
        let installed = crate::ctx::RUN.with(|r| r.try_borrow().map(|r| r.is_some()).unwrap_or(false));
        if !installed {
            return;
        }
        let now = now_ms();
        note_exit(id, now);
        let (reaped, sd) = with_run(|r| {
            let sd = r.shutting_down;
            let c = &mut r.world.children[id as usize];
            c.dropped = true;
            let alive = !matches!(c.death, Some((at, _)) if at <= now);
            if alive && c.kill_on_drop {
                // tokio's kill_on_drop: SIGKILL to the leader pid only
                c.death = Some((now, 1009));
            }
            (c.reaped, sd)
        });
        note_exit(id, now);
        log(Ev::Dropped { child: id, reaped, in_shutdown: sd });
    }
}
