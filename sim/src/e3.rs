//! E3 "clisim": E2 driven by the real CLI — `Args` parsed and normalised from an argv (H5),
//! the real `make_config` action handler, the real `Watchexec` runtime and supervisor; SimChild
//! for processes.

use std::cell::RefCell;
use std::collections::HashMap;
use std::ffi::OsString;
use std::path::PathBuf;
use std::sync::{Arc, Mutex};
use std::time::Duration;

use serde::{Deserialize, Serialize};
use tokio::sync::mpsc;
use watchexec::{action::ActionReturn, error::RuntimeError, Config, ErrorHook, Watchexec};
use watchexec_cli::args::Args;
use watchexec_events::{Event, Priority, Source, Tag};
use watchexec_signals::Signal;

use crate::child::{finalize_world, ChildSpec};
use crate::ctx::{log, run_sim_main, sleep_ms, with_run, Ev, Policy, RunOut, SimOpts, HOUR_MS};
use crate::e2::{event_id, SIGNAL_ID_BASE};

#[derive(Clone, Debug, Serialize, Deserialize, PartialEq, Eq, Hash)]
pub enum E3Kind {
    /// a filesystem change event (path /sim/ev/<id>), as the fs source would queue it
    Change { id: u32 },
    /// an OS signal through the signal source's own constructor (H4)
    Signal { sig: i32 },
}

#[derive(Clone, Debug, Serialize, Deserialize, PartialEq, Eq, Hash)]
pub struct E3Step {
    pub gap: u64,
    pub kind: E3Kind,
}

#[derive(Clone, Debug, Serialize, Deserialize, PartialEq, Eq, Hash)]
pub struct E3Scn {
    pub family: String,
    /// "do-nothing" | "queue" | "restart" | "signal"
    pub mode: String,
    /// how the mode is spelled on the command line: "long" (--on-busy-update=), "short" (-r / --signal)
    pub spelling: String,
    pub postpone: bool,
    pub signal: Option<String>,
    pub stop_signal: Option<String>,
    pub stop_timeout_ms: u64,
    pub delay_run_ms: Option<u64>,
    pub debounce_ms: u64,
    pub children: Vec<ChildSpec>,
    pub steps: Vec<E3Step>,
    /// how the run is ended: signal number of the final interrupt/terminate (2 or 15)
    pub final_signal: i32,
    /// `--map-signal FROM:TO` (TO = None: discard). A mapped interrupt / terminate no longer quits.
    #[serde(default)]
    pub map_signals: Vec<(String, Option<String>)>,
    /// `--wrap-process=group|session|none`, or "legacy-none" = `--no-process-group`; None = the default (group)
    #[serde(default)]
    pub wrap: Option<String>,
    /// spawn attempts (0-based, counted over the run) that fail, e.g. the program is missing or not executable
    #[serde(default)]
    pub spawn_fail: Vec<u32>,
}

impl E3Scn {
    pub fn argv(&self) -> Vec<String> {
        let mut v: Vec<String> = vec!["watchexec".into(), "-q".into(), "-n".into(), "--no-discover-ignore".into(), "-w".into(), "/dev/null".into()];
        match (self.mode.as_str(), self.spelling.as_str()) {
            ("restart", "short") => v.push("-r".into()),
            ("signal", "short") => {}
            (m, _) => v.push(format!("--on-busy-update={m}")),
        }
        if let Some(s) = &self.signal {
            v.push(format!("--signal={s}"));
        }
        if let Some(s) = &self.stop_signal {
            v.push(format!("--stop-signal={s}"));
        }
        v.push(format!("--stop-timeout={}ms", self.stop_timeout_ms));
        if let Some(d) = self.delay_run_ms {
            v.push(format!("--delay-run={d}ms"));
        }
        v.push(format!("--debounce={}ms", self.debounce_ms));
        if self.postpone {
            v.push("--postpone".into());
        }
        match self.wrap.as_deref() {
            Some("legacy-none") => v.push("--no-process-group".into()),
            Some(w) => v.push(format!("--wrap-process={w}")),
            None => {}
        }
        for (from, to) in &self.map_signals {
            v.push(format!("--map-signal={from}:{}", to.as_deref().unwrap_or("")));
        }
        v.push("--".into());
        v.push("simcmd".into());
        v.push("arg".into());
        v
    }
    /// the effective on-busy mode after the CLI's normalisation rules
    pub fn effective_mode(&self) -> &str {
        if self.signal.is_some() {
            "signal"
        } else {
            self.mode.as_str()
        }
    }
    /// what the CLI does with signal `sig` sent to watchexec: Some(n) = passes n on to the command, None = discards it.
    /// (Unmapped interrupt / terminate quit instead: the caller knows.)
    pub fn passed_on_as(&self, sig: i32) -> Option<i32> {
        match self.map_signals.iter().find(|(from, _)| sig_no(from) == sig) {
            Some((_, Some(to))) => Some(sig_no(to)),
            Some((_, None)) => None,
            None => Some(sig),
        }
    }
    /// (process group, session) wrappers the spawned command must carry
    pub fn expected_wrappers(&self) -> (bool, bool) {
        match self.wrap.as_deref() {
            None | Some("group") => (true, false),
            Some("session") => (false, true),
            _ => (false, false),
        }
    }
    pub fn stop_sig_no(&self) -> i32 {
        sig_no(self.stop_signal.as_deref().unwrap_or("TERM"))
    }
    /// the signal sent in signal mode: stop_signal, else signal, else TERM
    pub fn busy_sig_no(&self) -> i32 {
        sig_no(self.stop_signal.as_deref().or(self.signal.as_deref()).unwrap_or("TERM"))
    }
}

pub fn sig_no(name: &str) -> i32 {
    match name {
        "HUP" => 1,
        "INT" => 2,
        "QUIT" => 3,
        "KILL" => 9,
        "USR1" => 10,
        "USR2" => 12,
        "TERM" => 15,
        _ => 15,
    }
}

thread_local! {
    static ARGS_CACHE: RefCell<HashMap<Vec<String>, Args>> = RefCell::new(HashMap::new());
    /// a plain (real-time) runtime kept per worker thread for argument normalisation only
    static PARSE_RT: tokio::runtime::Runtime = tokio::runtime::Builder::new_current_thread().enable_all().build().expect("runtime for arg parsing");
}

/// Parse + normalise outside the simulation (it touches the real filesystem through a blocking pool).
fn parsed_args(argv: &[String]) -> Args {
    if let Some(a) = ARGS_CACHE.with(|c| c.borrow().get(argv).cloned()) {
        return a;
    }
    let os: Vec<OsString> = argv.iter().map(OsString::from).collect();
    let args = PARSE_RT.with(|rt| rt.block_on(async move { watchexec_cli::verif::args_from(os).await })).expect("argv must parse");
    ARGS_CACHE.with(|c| c.borrow_mut().insert(argv.to_vec(), args.clone()));
    args
}

fn change_event(id: u32) -> Event {
    Event {
        tags: vec![
            Tag::Source(Source::Filesystem),
            Tag::FileEventKind(notify::EventKind::Modify(notify::event::ModifyKind::Any)),
            Tag::Path { path: PathBuf::from(format!("/sim/ev/{id}")), file_type: None },
        ],
        metadata: Default::default(),
    }
}

thread_local! {
    static BATCH_NO: std::cell::Cell<u32> = const { std::cell::Cell::new(0) };
    static IN_HANDLER: std::cell::Cell<bool> = const { std::cell::Cell::new(false) };
    static MAIN_DONE: std::cell::Cell<bool> = const { std::cell::Cell::new(false) };
}

async fn e3_root(scn: E3Scn, args: Args) {
    crate::e1::reset_counters();
    BATCH_NO.with(|b| b.set(0));
    IN_HANDLER.with(|b| b.set(false));
    with_run(|r| {
        r.world.ensure_job(0);
        r.world.specs[0] = if scn.children.is_empty() { vec![ChildSpec::default()] } else { scn.children.clone() };
        r.world.spawn_fail[0] = scn.spawn_fail.clone();
    });
    let state = match watchexec_cli::verif::new_state(&args).await {
        Ok(s) => s,
        Err(e) => {
            log(Ev::MainEnd { ok: false, msg: format!("state: {e}") });
            return;
        }
    };
    // the real run_watchexec() (make_config, the CLI's filterer, runtime creation, start-up event, main loop) runs as
    // its own task; two observation points (H8) let the harness wrap the handlers in recorders and pick up the
    // runtime's event queue
    let driver: DriverSlot = Arc::new(Mutex::new(None));
    let main_done = Arc::new(tokio::sync::Notify::new());
    let gave_up = Arc::new(tokio::sync::Notify::new());
    MAIN_DONE.with(|b| b.set(false));
    {
        let slot = driver.clone();
        let (main_done, gave_up) = (main_done.clone(), gave_up.clone());
        let postpone = scn.postpone;
        let mut scn = Some(scn);
        watchexec_cli::verif::set_run_observer(Some(watchexec_cli::verif::RunObserver {
            configured: Box::new(|config: &Config| {
                let inner = config.action_handler.verif_get();
                config.on_action_async(move |action| {
                    let ids: Vec<u32> = action.events.iter().map(event_id).collect();
                    let n = BATCH_NO.with(|b| {
                        let v = b.get();
                        b.set(v + 1);
                        v
                    });
                    IN_HANDLER.with(|b| b.set(true));
                    log(Ev::Batch { n, ids, urgent: false });
                    let ret = inner(action);
                    Box::new(async move {
                        let action = match ret {
                            ActionReturn::Sync(a) => a,
                            ActionReturn::Async(f) => Box::into_pin(f).await,
                        };
                        IN_HANDLER.with(|b| b.set(false));
                        log(Ev::BatchEnd { n });
                        action
                    })
                });
                let inner_err = config.error_handler.verif_get();
                config.on_error(move |hook: ErrorHook| {
                    let mut msg = format!("{}", hook.error);
                    msg.truncate(200);
                    log(Ev::RtErr { n: 0, msg });
                    inner_err(hook);
                });
            }),
            runtime_created: Box::new(move |wx: &Watchexec| {
                // the driver (the user and the outside world) starts only now: while run_watchexec() assembles its
                // configuration it canonicalises the project origin on the blocking pool, and whether that finishes
                // before or after its first poll must not change what is runnable
                if let Some(scn) = scn.take() {
                    *slot.lock().unwrap() = Some(tokio::spawn(e3_driver(scn, wx.verif_event_input(), main_done.clone(), gave_up.clone())));
                }
                if !postpone {
                    // the start-up event is sent by run_watchexec() itself, right after this point
                    log(Ev::EvSend { id: 0, prio: 3, src: 250 });
                    log(Ev::EvSent { id: 0, ok: true });
                }
            }),
        }));
    }
    // run_watchexec()'s future is not Send (as in production, it is the program's main future): it runs here, in the
    // root; the driver that plays the user and the outside world is the spawned task
    {
        let mut run = Box::pin(watchexec_cli::verif::run(args, state));
        tokio::select! {
            biased;
            r = &mut run => match r {
                Ok(()) => log(Ev::MainEnd { ok: true, msg: String::new() }),
                Err(e) => log(Ev::MainEnd { ok: false, msg: format!("{e}") }),
            },
            _ = gave_up.notified() => log(Ev::Note { what: "main-never-ended", a: 0, b: 0 }),
        }
        MAIN_DONE.with(|b| b.set(true));
        main_done.notify_one();
        watchexec_cli::verif::set_run_observer(None);
        let h = driver.lock().unwrap().take();
        if let Some(h) = h {
            let _ = h.await;
        }
    }
    finalize_world();
    log(Ev::Note { what: "scenario-over", a: 0, b: 0 });
}

type DriverSlot = Arc<Mutex<Option<tokio::task::JoinHandle<()>>>>;
type Input = async_priority_channel::Sender<Event, Priority>;

async fn e3_driver(scn: E3Scn, input: Input, main_done: Arc<tokio::sync::Notify>, gave_up: Arc<tokio::sync::Notify>) {
    let finished = || MAIN_DONE.with(|b| b.get());
    let (dummy_tx, _dummy_rx) = mpsc::channel::<RuntimeError>(8);
    for st in &scn.steps {
        if st.gap > 0 {
            sleep_ms(st.gap).await;
        }
        if finished() {
            break;
        }
        match st.kind {
            E3Kind::Change { id } => {
                log(Ev::EvSend { id, prio: 1, src: 0 });
                let r = tokio::time::timeout(Duration::from_millis(HOUR_MS), input.send(change_event(id), Priority::Normal)).await;
                log(Ev::EvSent { id, ok: matches!(r, Ok(Ok(()))) });
            }
            E3Kind::Signal { sig } => {
                let s = Signal::from(sig);
                let id = SIGNAL_ID_BASE + sig as u32;
                log(Ev::EvSend { id, prio: if matches!(s, Signal::Interrupt | Signal::Terminate) { 3 } else { 2 }, src: 100 });
                let r = tokio::time::timeout(Duration::from_millis(HOUR_MS), watchexec::verif::signal_send_event(dummy_tx.clone(), input.clone(), s)).await;
                log(Ev::EvSent { id, ok: matches!(r, Ok(Ok(()))) });
            }
        }
    }
    log(Ev::Note { what: "producers-done", a: 0, b: 0 });
    // settle: until no batch was delivered and no handler ran for a long stretch (longer than debounce,
    // stop timeout, delay-run and any child's remaining life that is not "forever")
    let quiet = scn.debounce_ms + 2 * scn.stop_timeout_ms + scn.delay_run_ms.unwrap_or(0) + 3000;
    let early = scn.family == "cli-quit-early";
    if early {
        // the quit lands in the middle of whatever the last change set in motion
        sleep_ms((scn.steps.len() as u64 * 37 + scn.stop_timeout_ms) % 120).await;
    }
    for _ in 0..(if early { 0 } else { 200 }) {
        let before = (BATCH_NO.with(|b| b.get()), with_run(|r| r.seq));
        sleep_ms(quiet).await;
        let after = (BATCH_NO.with(|b| b.get()), with_run(|r| r.seq));
        if before == after && !IN_HANDLER.with(|b| b.get()) {
            break;
        }
    }
    log(Ev::Note { what: "quiescent", a: 0, b: 0 });
    // final: the user hits Ctrl-C (or the process gets SIGTERM)
    if !finished() {
        let s = Signal::from(scn.final_signal);
        let id = SIGNAL_ID_BASE + scn.final_signal as u32;
        log(Ev::EvSend { id, prio: 3, src: 201 });
        let r = tokio::time::timeout(Duration::from_millis(HOUR_MS), watchexec::verif::signal_send_event(dummy_tx.clone(), input.clone(), s)).await;
        log(Ev::EvSent { id, ok: matches!(r, Ok(Ok(()))) });
    }
    let wait = async {
        while !finished() {
            main_done.notified().await;
        }
    };
    if tokio::time::timeout(Duration::from_millis(HOUR_MS), wait).await.is_err() {
        gave_up.notify_one();
    }
}

fn silence_stderr() {
    use std::sync::Once;
    static ONCE: Once = Once::new();
    ONCE.call_once(|| unsafe {
        // the CLI prints banners to stderr unconditionally in places
        let fd = libc::open(b"/dev/null\0".as_ptr() as *const libc::c_char, libc::O_WRONLY);
        if fd >= 0 {
            libc::dup2(fd, 2);
            libc::close(fd);
        }
    });
}

pub fn execute(scn: &E3Scn, policy: Policy, sched_seed: u64) -> RunOut {
    silence_stderr();
    crate::child::install_interposer();
    crate::e2::install_watcher_factory();
    watchexec::verif::set_hash_seed(0);
    let args = parsed_args(&scn.argv());
    let scn = scn.clone();
    run_sim_main(policy, sched_seed, SimOpts { enable_io: true }, move || e3_root(scn, args))
}
