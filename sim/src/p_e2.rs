//! E2 property checks: C01 (conservation), C02 (debounce), C15 (runtime errors), C13 (watcher
//! registration), C08 (quit).

use std::collections::{BTreeMap, BTreeSet};

use serde_json::{json, Value};

use crate::check::{Check, Stats, Tier, Violation};
use crate::ctx::{Ev, Policy, RunOut};
use crate::e2::{self, Change, E2Scn, ErrPlan, PKind, PStep, FINAL_ID, KEYBOARD_ID, PROBE_ID, SIGNAL_ID_BASE};
use crate::rng::Rng;

pub fn e2_components() -> Value {
    json!({
        "real": [
            "watchexec lib: Watchexec::with_config / main / send_event, action worker + throttle_collect, Handler, LateJoinSet, error_hook + ErrorHook, Config / Changeable / ChangeableFn / ConfigWatched, fs worker loop + process_event + notify_multi_path_errors, signal and keyboard send_event (event construction + priority mapping)",
            "watchexec-supervisor job tasks (for quit scenarios)",
            "async-priority-channel, event-listener, tokio 1.43.0 timers / channels / Notify / JoinSet / select! (vendored; only run-queue pick and select! start branch decided by the simulator)"
        ],
        "stub": [
            "notify back-ends and the filesystem (SimWatcher through hook H3: records watch/unwatch, injects failures, keeps the real event-handler closure and fires Ok/Err into it)",
            "OS signal delivery and the stdin reader thread (H4: the sources' own send_event is called directly)",
            "child processes (SimChild, hook H2)",
            "the event filter (SimFilterer: scripted verdict per event id and per filterer generation; replaced at run time through Config::filterer in the filter-replaced family) and the user handlers (scripted)",
            "wall clock (virtual; hook H1 makes throttle_collect read tokio's clock)"
        ]
    })
}

pub fn e2_assumptions() -> Vec<String> {
    vec![
        "notify calls the event handler only from its own thread(s), modelled as simulator tasks; real filesystem operations under native/poll watchers are outside the simulator and not claimed".into(),
        "one OS thread: interleavings at await-point granularity; any poll order of ready tasks is one the multi-thread runtime can also produce".into(),
        "sampling, not proof".into(),
    ]
}

// ------------------------------------------------------------------------------------------
// digest

#[derive(Default, Debug)]
pub struct D2 {
    /// id -> (prio, t, seq) of send start
    pub send: BTreeMap<u32, Vec<(u8, u64, u32)>>,
    /// id -> (t, seq, ok)
    pub sent: BTreeMap<u32, Vec<(u64, u32, bool)>>,
    pub trysent: BTreeMap<u32, Vec<(u64, u32, bool)>>,
    pub filter: BTreeMap<u32, Vec<(u64, u32, u8)>>,
    /// n -> (t, seq, ids)
    pub batches: Vec<(u64, u32, Vec<u32>)>,
    pub batch_end: Vec<(u64, u32)>,
    pub errs: Vec<(u64, u32, String)>,
    pub err_actions: Vec<(u32, &'static str, u64)>,
    pub main_end: Option<(u64, u32, bool, String)>,
    pub quit_req: Vec<(u64, u32, &'static str, u64)>,
    pub producers_done: Option<(u64, u32)>,
    pub quiescent: Option<(u64, u32)>,
    pub send_hung: Vec<u32>,
    pub throttle_changes: Vec<(u64, u64, u32)>,
    pub over_seq: u32,
    /// seq of every run-time replacement of the filterer
    pub filter_replaced: Vec<u32>,
    /// a thread of the outside world panicked inside watchexec code (e.g. notify's thread in the event handler)
    pub producer_panics: u32,
}

pub fn digest2(out: &RunOut) -> D2 {
    let mut d = D2::default();
    d.over_seq = u32::MAX;
    for r in &out.hist {
        match &r.ev {
            Ev::Note { what: "scenario-over", .. } => {
                d.over_seq = r.seq;
                break;
            }
            Ev::EvSend { id, prio, .. } => d.send.entry(*id).or_default().push((*prio, r.t, r.seq)),
            Ev::EvSent { id, ok } => d.sent.entry(*id).or_default().push((r.t, r.seq, *ok)),
            Ev::EvTrySend { id, ok } => d.trysent.entry(*id).or_default().push((r.t, r.seq, *ok)),
            Ev::Filter { id, verdict } => d.filter.entry(*id).or_default().push((r.t, r.seq, *verdict)),
            Ev::CfgChange { what, .. } if what == "ReplaceFilterer" => d.filter_replaced.push(r.seq),
            Ev::Note { what: "producer-panicked", .. } => d.producer_panics += 1,
            Ev::Batch { ids, .. } => d.batches.push((r.t, r.seq, ids.clone())),
            Ev::BatchEnd { .. } => d.batch_end.push((r.t, r.seq)),
            Ev::RtErr { msg, .. } => d.errs.push((r.t, r.seq, msg.clone())),
            Ev::ErrAction { n, what } => d.err_actions.push((*n, what, r.t)),
            Ev::MainEnd { ok, msg } => d.main_end = Some((r.t, r.seq, *ok, msg.clone())),
            Ev::QuitReq { manner, grace } => d.quit_req.push((r.t, r.seq, manner, *grace)),
            Ev::Note { what: "producers-done", .. } => d.producers_done = Some((r.t, r.seq)),
            Ev::Note { what: "quiescent", .. } => d.quiescent = Some((r.t, r.seq)),
            Ev::Note { what: "send-hung", a, .. } => d.send_hung.push(*a as u32),
            Ev::CfgChange { what, .. } => {
                if let Some(ms) = what.strip_prefix("Throttle(").and_then(|s| s.strip_suffix(')')).and_then(|s| s.parse::<u64>().ok()) {
                    d.throttle_changes.push((r.t, ms, r.seq));
                }
            }
            _ => {}
        }
    }
    d
}

fn prio_of_id(d: &D2, id: u32) -> Option<u8> {
    d.send.get(&id).and_then(|v| v.first()).map(|s| s.0)
}

/// the instant after which events are no longer owed to the handler: first quit request or end of main
fn running_until(d: &D2) -> (u64, u32) {
    let mut t = (u64::MAX, u32::MAX);
    if let Some(q) = d.quit_req.first() {
        t = (q.0, q.1);
    }
    if let Some(m) = &d.main_end {
        if m.1 < t.1 {
            t = (m.0, m.1);
        }
    }
    // an elevated / critical error ends main: nothing is owed from the moment the handler asked for it
    if let Some(a) = d.err_actions.iter().find(|a| a.1 == "elevate" || a.1 == "critical") {
        if let Some(e) = d.errs.get(a.0 as usize) {
            if e.1 < t.1 {
                t = (e.0, e.1);
            }
        }
    }
    t
}

// ------------------------------------------------------------------------------------------
// C01 conservation oracle

pub fn oracle_c01(scn: &E2Scn, d: &D2, stats: &mut Stats) -> Vec<Violation> {
    let mut vs = Vec::new();
    let (_, stop_seq) = running_until(d);
    // occurrences in batches (batches delivered while running)
    let mut occ: BTreeMap<u32, u32> = BTreeMap::new();
    for (n, (t, seq, ids)) in d.batches.iter().enumerate() {
        if ids.is_empty() {
            vs.push(Violation::new("empty-batch", "", format!("action handler invoked with an empty batch (batch {n} at t={t} #{seq})")));
        }
        for id in ids {
            *occ.entry(*id).or_insert(0) += 1;
        }
    }
    // accepted events
    let mut accepted: BTreeMap<u32, u32> = BTreeMap::new(); // id -> times accepted (before the quit)
    let mut refused: BTreeSet<u32> = BTreeSet::new();
    for (id, v) in &d.sent {
        for (_, seq, ok) in v {
            if *ok && *seq < stop_seq {
                *accepted.entry(*id).or_insert(0) += 1;
            }
        }
    }
    for (id, v) in &d.trysent {
        for (_, seq, ok) in v {
            if *ok {
                if *seq < stop_seq {
                    *accepted.entry(*id).or_insert(0) += 1;
                }
            } else {
                refused.insert(*id);
                stats.hit("fault:event-queue-overflow");
            }
        }
    }
    for (id, n_acc) in &accepted {
        let prio = prio_of_id(d, *id).unwrap_or(1);
        let urgent = prio == 3;
        let empty = scn.producers.iter().flatten().any(|s| matches!(s.kind, PKind::Send { id: i, empty: true, .. } if i == *id));
        let verdict = scn.verdict(*id);
        let flips = (scn.flip_ids.contains(id) || (scn.default_filterer_first && verdict != 0)) && !urgent && !empty;
        // an event whose verdict depends on the filterer in place: each accepted occurrence is owed (or not) according to
        // the filterer installed when it entered the queue (the scenarios keep replacements and sends seconds apart)
        let owed_n = if flips {
            stats.hit("probe:verdict-changed-by-filterer-replacement");
            let mut n = 0;
            for (_, seq, ok) in d.sent.get(id).into_iter().flatten() {
                let gen = d.filter_replaced.iter().filter(|r| **r < *seq).count() as u32;
                // (before the first installation the default filterer is in place: everything passes)
                let accepted = if scn.default_filterer_first && gen == 0 { true } else { scn.verdict_gen(*id, gen) == 0 };
                if *ok && *seq < stop_seq && accepted {
                    n += 1;
                }
            }
            n
        } else {
            *n_acc
        };
        let n_acc = &owed_n;
        let must = urgent || empty || (verdict == 0 && !flips) || (flips && owed_n > 0);
        let got = occ.get(id).copied().unwrap_or(0);
        if must {
            // events still in flight when a quit / escalation ends the run early are not owed
            let owed = d.quiescent.map(|q| q.1 < stop_seq).unwrap_or(false);
            if got < *n_acc && owed {
                vs.push(Violation::new(
                    "accepted-event-lost",
                    &format!("prio={prio} empty={empty}{}", if flips { " after-filterer-replacement" } else { "" }),
                    format!("event {id} (priority {prio}, verdict {verdict}, empty {empty}) was accepted {n_acc}x but appeared in {got} batch(es)"),
                ));
            } else if got > *n_acc {
                vs.push(Violation::new(
                    if flips { "rejected-event-delivered" } else { "event-delivered-twice" },
                    &format!("prio={prio}{}", if flips { " around-filterer-replacement" } else { "" }),
                    format!("event {id} was owed to the handler {n_acc}x but appeared in {got} batches"),
                ));
            }
        } else if got > 0 {
            vs.push(Violation::new(
                "rejected-event-delivered",
                &format!("verdict={verdict}"),
                format!("event {id} (verdict {}) reached the action handler", if verdict == 1 { "reject" } else { "error" }),
            ));
        }
        if urgent {
            stats.hit("probe:urgent-event");
        }
        if empty && !urgent {
            stats.hit("probe:empty-nonurgent-event");
        }
    }
    // delivered but never accepted
    for (id, got) in &occ {
        if !accepted.contains_key(id) && *got > 0 {
            let in_flight = d.sent.get(id).map(|v| v.iter().any(|x| x.2)).unwrap_or(false) || d.trysent.get(id).map(|v| v.iter().any(|x| x.2)).unwrap_or(false);
            if !in_flight {
                vs.push(Violation::new("phantom-event", "", format!("event {id} reached the handler but was never accepted into the queue")));
            }
        }
    }
    // (4) filter at most once per accepted occurrence, never for urgent or empty events
    for (id, calls) in &d.filter {
        let prio = prio_of_id(d, *id).unwrap_or(1);
        let empty = scn.producers.iter().flatten().any(|s| matches!(s.kind, PKind::Send { id: i, empty: true, .. } if i == *id));
        if prio == 3 || empty {
            vs.push(Violation::new("filter-called-for-bypass-event", &format!("urgent={} empty={empty}", prio == 3), format!("event {id} (urgent or empty) was passed to the filter")));
        }
        let acc = d.sent.get(id).map(|v| v.iter().filter(|x| x.2).count()).unwrap_or(0) + d.trysent.get(id).map(|v| v.iter().filter(|x| x.2).count()).unwrap_or(0);
        if calls.len() > acc.max(1) {
            vs.push(Violation::new("filter-called-twice", "", format!("event {id} was filtered {} times", calls.len())));
        }
    }
    // (5) refused by try_send: appears nowhere
    for id in &refused {
        if occ.get(id).copied().unwrap_or(0) > 0 && !accepted.contains_key(id) {
            vs.push(Violation::new("refused-event-delivered", "", format!("event {id} was refused by the full queue but reached the handler")));
        }
    }
    for id in &d.send_hung {
        vs.push(Violation::new("send-event-hung", "", format!("send_event for event {id} did not complete within 1 h (virtual)")));
    }
    vs
}

// ------------------------------------------------------------------------------------------
// C02 debounce oracle

pub fn oracle_c02(scn: &E2Scn, d: &D2, stats: &mut Stats) -> Vec<Violation> {
    let mut vs = Vec::new();
    let (_, stop_seq) = running_until(d);
    // throttle values in effect between two points of the history (by log order, so that a change
    // landing at the same virtual instant is attributed correctly)
    let throttles_during = |a_seq: u32, b_seq: u32| -> (u64, u64) {
        let mut cur = scn.throttle;
        for (_, ms, cs) in &d.throttle_changes {
            if *cs <= a_seq {
                cur = *ms;
            }
        }
        let (mut lo, mut hi) = (cur, cur);
        for (_, ms, cs) in &d.throttle_changes {
            if *cs > a_seq && *cs < b_seq {
                lo = lo.min(*ms);
                hi = hi.max(*ms);
            }
        }
        (lo, hi)
    };
    // handler intervals
    let intervals: Vec<(u64, u64)> = d.batches.iter().enumerate().map(|(n, b)| (b.0, d.batch_end.get(n).map(|e| e.0).unwrap_or(u64::MAX))).collect();
    // first instant >= x at which none of the handler invocations before batch `upto` is running
    let idle_from = |x: u64, upto: usize| -> u64 {
        let mut t = x;
        for (s, e) in intervals.iter().take(upto) {
            if *s <= t && t <= *e {
                t = *e;
            }
        }
        t
    };
    // the queue hands out pending events by priority: no event is received (filtered) while an event of
    // higher priority, accepted earlier, is still waiting to be received
    let mut fcalls: Vec<(u32, u32, u8)> = Vec::new(); // (filter seq, id, prio)
    for (id, calls) in &d.filter {
        if let Some(p) = prio_of_id(d, *id) {
            for c in calls {
                fcalls.push((c.1, *id, p));
            }
        }
    }
    fcalls.sort();
    for (i, (fseq_b, b, pb)) in fcalls.iter().enumerate() {
        for (fseq_a, a, pa) in fcalls.iter().skip(i + 1) {
            if pa > pb {
                let acc_a = d.sent.get(a).and_then(|v| v.iter().find(|x| x.2)).map(|x| x.1).or_else(|| d.trysent.get(a).and_then(|v| v.iter().find(|x| x.2)).map(|x| x.1));
                if let Some(acc) = acc_a {
                    if acc < *fseq_b {
                        stats.hit("probe:priority-order-judged");
                        vs.push(Violation::new(
                            "lower-priority-event-received-first",
                            "",
                            format!("event {b} (priority {pb}) was received at #{fseq_b} although event {a} (priority {pa}), accepted at #{acc}, was still queued (received at #{fseq_a})"),
                        ));
                    }
                }
            } else if pa < pb {
                stats.hit("probe:priority-order-judged");
            }
        }
    }
    // an urgent event is not filtered
    for (id, calls) in &d.filter {
        if prio_of_id(d, *id) == Some(3) && !calls.is_empty() {
            vs.push(Violation::new("urgent-event-was-filtered", "", format!("urgent event {id} was passed to the filter at t={}", calls[0].0)));
        }
    }
    let mut prev_batch_seq = 0u32;
    for (n, (dt, dseq, ids)) in d.batches.iter().enumerate() {
        if *dseq > stop_seq {
            break;
        }
        let urgent_members: Vec<u32> = ids.iter().copied().filter(|id| prio_of_id(d, *id) == Some(3)).collect();
        // conservation in sequence terms: every passing filter call between the previous delivery and this one is a member
        for (id, calls) in &d.filter {
            for (ft, fseq, verdict) in calls {
                if *verdict == 0 && *fseq > prev_batch_seq && *fseq < *dseq && !ids.contains(id) {
                    vs.push(Violation::new(
                        "event-in-window-not-in-batch",
                        "",
                        format!("event {id} passed the filter at t={ft} (#{fseq}), inside the window that ended with batch {n} at t={dt} (#{dseq}), but is not in that batch {ids:?}"),
                    ));
                }
            }
        }
        if urgent_members.is_empty() {
            // lower bound (a lower bound on the first receive instant is enough)
            let lb = ids
                .iter()
                .filter_map(|id| {
                    let f = d.filter.get(id).and_then(|c| c.iter().filter(|c| c.1 < *dseq).map(|c| (c.0, c.1)).last());
                    let s = d.sent.get(id).and_then(|c| c.iter().filter(|c| c.1 < *dseq && c.2).map(|c| (c.0, c.1)).last());
                    let ts = d.trysent.get(id).and_then(|c| c.iter().filter(|c| c.1 < *dseq && c.2).map(|c| (c.0, c.1)).last());
                    f.or(s).or(ts)
                })
                .min();
            if let Some((first_lb, first_seq)) = lb {
                let (lo, hi) = throttles_during(first_seq, *dseq);
                stats.hit("probe:non-urgent-batch-judged");
                if *dt < first_lb.saturating_add(lo) {
                    vs.push(Violation::new(
                        "batch-before-window-elapsed",
                        "",
                        format!("batch {n} {ids:?} delivered at t={dt}, but its first event was received at t>={first_lb} and the throttle is {lo} ms"),
                    ));
                }
                // upper bound: no starvation
                let ub_first = ids
                    .iter()
                    .filter_map(|id| {
                        let f = d.filter.get(id).and_then(|c| c.iter().filter(|c| c.1 < *dseq).map(|c| c.0).last());
                        let s = d.sent.get(id).and_then(|c| c.iter().filter(|c| c.1 < *dseq && c.2).map(|c| idle_from(c.0, n)).last());
                        let ts = d.trysent.get(id).and_then(|c| c.iter().filter(|c| c.1 < *dseq && c.2).map(|c| idle_from(c.0, n)).last());
                        f.or(s).or(ts)
                    })
                    .min()
                    .unwrap_or(first_lb);
                if *dt > ub_first.saturating_add(hi) {
                    vs.push(Violation::new(
                        "batch-starved",
                        "",
                        format!("batch {n} {ids:?} delivered at t={dt}, later than first receive (t<={ub_first}) + throttle ({hi} ms)"),
                    ));
                }
                if *dt == first_lb.saturating_add(lo) && lo > 0 {
                    stats.hit("probe:batch-exactly-at-window-end");
                }
            }
        } else {
            // urgent flush: at the instant the urgent event was accepted, or when the worker became free
            stats.hit("probe:urgent-flush");
            if ids.len() > urgent_members.len() {
                stats.hit("probe:urgent-flush-with-nonempty-set");
            }
            let u = urgent_members[0];
            let accepted_at = d.sent.get(&u).and_then(|c| c.iter().filter(|c| c.2 && c.1 < *dseq).map(|c| c.0).last());
            if let Some(a) = accepted_at {
                let prev_end = if n > 0 { d.batch_end.get(n - 1).map(|e| e.0).unwrap_or(0) } else { 0 };
                let expect = a.max(prev_end);
                if *dt != expect {
                    vs.push(Violation::new(
                        "urgent-not-immediate",
                        "",
                        format!("batch {n} {ids:?} carries urgent event {u} accepted at t={a} (previous handler returned at t={prev_end}) but was delivered at t={dt}, expected t={expect}"),
                    ));
                }
            }
        }
        prev_batch_seq = *dseq;
    }
    vs
}

// ------------------------------------------------------------------------------------------
// C15 error oracle (event side; the watcher side is in oracle_c13)

pub fn oracle_c15_events(scn: &E2Scn, d: &D2, stats: &mut Stats) -> Vec<Violation> {
    let mut vs = Vec::new();
    let (_, stop_seq) = running_until(d);
    // (1) each filter error: exactly one handler call
    for (id, calls) in &d.filter {
        for (ft, fseq, verdict) in calls {
            if *verdict != 2 {
                continue;
            }
            stats.hit("fault:filter-error");
            let tag = format!("sim-filter-error-{id} ");
            let tag2 = format!("sim-filter-error-{id}\"");
            let n = d.errs.iter().filter(|e| e.2.contains(&tag) || e.2.contains(&tag2) || e.2.ends_with(&format!("sim-filter-error-{id}"))).count();
            if *fseq < stop_seq {
                // errors still queued when an escalation ends the run are not owed
                let owed = d.quiescent.map(|q| q.1 < stop_seq).unwrap_or(false);
                if n == 0 && owed {
                    vs.push(Violation::new("runtime-error-lost", "source=filter", format!("filter error for event {id} at t={ft} never reached the error handler")));
                } else if n > 1 {
                    vs.push(Violation::new("runtime-error-duplicated", "source=filter", format!("filter error for event {id} reached the error handler {n} times")));
                }
            }
        }
    }
    if d.producer_panics > 0 {
        vs.push(Violation::new("caller-thread-panicked", "", format!("{} simulated outside thread(s) (watcher backend, signal handler, event sender) panicked inside watchexec code", d.producer_panics)));
    }
    // callback-path errors: at most once each
    let mut cb: BTreeMap<String, usize> = BTreeMap::new();
    for e in &d.errs {
        if let Some(i) = e.2.find("sim-callback-error-") {
            let tag: String = e.2[i..].chars().take_while(|c| c.is_ascii_alphanumeric() || *c == '-').collect();
            *cb.entry(tag).or_insert(0) += 1;
        }
    }
    for (tag, n) in &cb {
        stats.hit("fault:watcher-callback-error");
        // the message is printed twice inside one handler call (display + debug); count handler calls
        // (the tag followed by a non-digit: "...-24" must not count "...-240")
        let calls = d
            .errs
            .iter()
            .filter(|e| e.2.match_indices(tag.as_str()).any(|(i, m)| !e.2[i + m.len()..].starts_with(|c: char| c.is_ascii_digit())))
            .count();
        if calls > 1 {
            vs.push(Violation::new("runtime-error-duplicated", "source=watcher-callback", format!("{tag} reached the error handler {calls} times ({n})")));
        }
    }
    let overflow_errs = d.errs.iter().filter(|e| e.2.contains("cannot send event from fs watcher")).count();
    let refused = d.trysent.values().flatten().filter(|x| !x.2).count();
    if overflow_errs > refused {
        vs.push(Violation::new("runtime-error-duplicated", "source=queue-overflow", format!("{overflow_errs} overflow errors for {refused} refused events")));
    }
    // (4) elevation / critical
    let escalation = d.err_actions.iter().find(|a| a.1 == "elevate" || a.1 == "critical");
    match escalation {
        Some((n, what, t)) => {
            stats.hit(if *what == "elevate" { "fault:handler-elevates" } else { "fault:handler-raises-critical" });
            match &d.main_end {
                Some((mt, _, ok, msg)) => {
                    if *ok {
                        vs.push(Violation::new("escalation-ignored", what, format!("error handler call {n} asked for '{what}' at t={t} but main ended Ok")));
                    } else if *what == "critical" && !msg.contains("sim-critical") {
                        vs.push(Violation::new("wrong-critical-error", what, format!("main ended with {msg:?}, expected the critical error raised by the handler")));
                    } else if *what == "elevate" && !msg.to_lowercase().contains("elevated") {
                        vs.push(Violation::new("wrong-critical-error", what, format!("main ended with {msg:?}, expected Elevated carrying the original error")));
                    }
                    if *mt != *t {
                        vs.push(Violation::new("escalation-late", what, format!("'{what}' requested at t={t} but main ended at t={mt}")));
                    }
                }
                None => vs.push(Violation::new("escalation-ignored", what, format!("error handler call {n} asked for '{what}' at t={t} but main never ended"))),
            }
            // no handler call follows
            if d.errs.len() as u32 > n + 1 {
                vs.push(Violation::new("handler-called-after-escalation", what, format!("{} error-handler calls although call {n} escalated", d.errs.len())));
            }
        }
        None => {
            // (4) not elevated: main must still be running when the scenario reaches quiescence
            if let (Some(q), Some(m)) = (&d.quiescent, &d.main_end) {
                let creation_failed = !scn.create_fail.is_empty() && m.3.contains("FsWatcherInit");
                if m.1 < q.1 && d.quit_req.iter().all(|r| r.1 > m.1) && !creation_failed {
                    vs.push(Violation::new("main-ended-without-escalation", "", format!("main ended at t={} ({}) although no handler escalated and no quit was requested", m.0, m.3)));
                }
            }
            // (3) liveness probe delivered within throttle + handler time
            if scn.probe {
                if let Some(s) = d.sent.get(&PROBE_ID).and_then(|v| v.first()) {
                    let delivered = d.batches.iter().find(|b| b.2.contains(&PROBE_ID));
                    let hi = scn.throttles().iter().copied().max().unwrap_or(0);
                    match delivered {
                        Some(b) if b.0 <= s.0 + hi + scn.max_handler() => stats.hit("probe:liveness-probe-delivered"),
                        other => vs.push(Violation::new(
                            "not-processing-after-errors",
                            "",
                            format!("liveness probe sent at t={} after the last fault was delivered: {:?} (bound t<={})", s.0, other.map(|b| b.0), s.0 + hi + scn.max_handler()),
                        )),
                    }
                }
            }
        }
    }
    if d.errs.len() > scn.error_cap as usize {
        stats.hit("probe:error-burst-larger-than-queue");
    }
    vs
}

// ------------------------------------------------------------------------------------------
// generators

pub fn gen_events(rng: &mut Rng, faults: bool) -> E2Scn {
    gen_events_opt(rng, faults, false)
}

/// `stalls`: slow-node faults (slow error handler, slow filter); not for checks with exact timing bounds
/// The filterer is replaced at run time (`Config::filterer`), which changes the verdict for some events; the very same
/// events (same tags, metadata and priority) are sent before and after, seconds apart from the replacement.
pub fn gen_filter_replaced(rng: &mut Rng) -> E2Scn {
    let throttle = *rng.pick(&[0u64, 10, 50, 50]);
    let n_ids = rng.range(1, 4) as u32;
    let ids: Vec<(u32, u8)> = (0..n_ids).map(|i| (10 + i, *rng.pick(&[0u8, 1, 1, 2]))).collect();
    let mut steps: Vec<PStep> = Vec::new();
    let mut verdicts = Vec::new();
    // optionally something ordinary first, so that the worker has been through a full cycle
    if rng.chance(1, 2) {
        steps.push(PStep { gap: 100, kind: PKind::Send { id: 50, prio: 1, empty: false } });
        steps.push(PStep { gap: 3000, kind: PKind::Send { id: 51, prio: 1, empty: false } });
        verdicts.push((51, 1));
    }
    let phases = rng.range(2, 4);
    for ph in 0..phases {
        if ph > 0 {
            steps.push(PStep { gap: 5000, kind: PKind::ReplaceFilterer });
        }
        let mut order = ids.clone();
        if rng.chance(1, 2) {
            order.reverse();
        }
        for (k, (id, prio)) in order.iter().enumerate() {
            let gap = if k == 0 { 5000 } else { *rng.pick(&[0u64, 1, throttle / 2, throttle + 1]) };
            steps.push(PStep { gap, kind: PKind::Send { id: *id, prio: *prio, empty: false } });
            if rng.chance(1, 4) {
                // an immediate repeat of the same event
                steps.push(PStep { gap: *rng.pick(&[0u64, 1]), kind: PKind::Send { id: *id, prio: *prio, empty: false } });
            }
        }
        if rng.chance(1, 3) {
            // a different event that is always rejected, between the phases
            steps.push(PStep { gap: 1, kind: PKind::Send { id: 60 + ph as u32, prio: 1, empty: false } });
            verdicts.push((60 + ph as u32, 1));
        }
    }
    // half of the time Watchexec starts with its default filterer and the first installation happens at run time: the
    // re-sent events are then rejected by plain verdicts instead of flipping ones
    let default_first = rng.chance(1, 2);
    let mut flip_ids: Vec<u32> = ids.iter().map(|i| i.0).collect();
    if default_first {
        for (id, _) in &ids {
            if rng.chance(2, 3) {
                verdicts.push((*id, 1));
            }
        }
        flip_ids.clear();
    }
    E2Scn {
        family: "filter-replaced".into(),
        throttle,
        handler_async: rng.chance(1, 2),
        handler_durs: vec![*rng.pick(&[0u64, 1, 20])],
        producers: vec![steps],
        verdicts,
        flip_ids,
        default_filterer_first: default_first,
        probe: true,
        ..Default::default()
    }
}

pub fn gen_events_opt(rng: &mut Rng, faults: bool, stalls: bool) -> E2Scn {
    let throttle = *rng.pick(&[0u64, 1, 10, 50, 50]);
    let n_prod = rng.range(1, 4) as usize;
    let big = rng.chance(1, 5);
    // (one in 40: a very long stream)
    let n_events = if rng.chance(1, 40) { rng.range(120, 300) } else { rng.range(1, if big { 60 } else { 14 }) };
    let mut producers: Vec<Vec<PStep>> = vec![Vec::new(); n_prod];
    let mut verdicts = Vec::new();
    let handler_async = rng.chance(1, 2);
    let hd = [0u64, 0, 1, throttle, throttle * 3, 20];
    let handler_durs: Vec<u64> = if handler_async { (0..rng.range(1, 3)).map(|_| *rng.pick(&hd)).collect() } else { vec![0] };
    let fs = rng.chance(1, 3);
    let style = rng.below(4);
    let mut used_sigs: Vec<i32> = Vec::new();
    let mut kbd = false;
    for i in 0..n_events {
        let id = 10 + i as u32;
        let p = rng.below(n_prod as u64) as usize;
        let gap = match style {
            0 => 0,
            1 => *rng.pick(&[0u64, 1, throttle / 2, throttle, throttle + 1, throttle.saturating_sub(1)]),
            2 => throttle / 3 + 1,
            _ => *rng.pick(&[0u64, 0, 1, 5, 20, 60, 200]),
        };
        let k = rng.below(20);
        let kind = if k == 0 && used_sigs.len() < 6 {
            let pool = [1, 2, 3, 15, 10, 12];
            let s = pool[used_sigs.len()];
            used_sigs.push(s);
            PKind::Signal { sig: s }
        } else if k == 1 && !kbd {
            kbd = true;
            PKind::KeyboardEof
        } else if k <= 4 && fs {
            PKind::FsFire { id }
        } else if k == 5 && faults && fs {
            PKind::FsErr { tag: id }
        } else if k == 6 && rng.chance(1, 3) {
            PKind::SetThrottle { ms: *rng.pick(&[0u64, 5, 50, 100]) }
        } else {
            let prio = match rng.below(10) {
                0 => 0,
                1..=5 => 1,
                6 | 7 => 2,
                _ => 3,
            };
            PKind::Send { id, prio, empty: rng.chance(1, 8) }
        };
        let v = match rng.below(10) {
            0..=5 => 0,
            6..=8 => 1,
            _ => {
                if faults {
                    2
                } else {
                    1
                }
            }
        };
        if v != 0 {
            verdicts.push((id, v));
        }
        producers[p].push(PStep { gap, kind });
    }
    // signals / keyboard may be rejected or errored too
    for s in &used_sigs {
        if rng.chance(1, 3) {
            verdicts.push((SIGNAL_ID_BASE + *s as u32, 1));
        }
    }
    let mut filter_slow = Vec::new();
    if stalls && rng.chance(1, 4) {
        for _ in 0..rng.range(1, 2) {
            filter_slow.push((10 + rng.below(n_events) as u32, *rng.pick(&[1u64, 20, 120])));
        }
    }
    let slow_ms = if stalls && faults && rng.chance(1, 3) { *rng.pick(&[10u64, 60, 300]) } else { 0 };
    let err_plan = if faults && rng.chance(1, 6) {
        match rng.below(3) {
            0 => ErrPlan { elevate_at: Some(rng.below(3) as u32), ..Default::default() },
            1 => ErrPlan { critical_at: Some(rng.below(3) as u32), ..Default::default() },
            _ => ErrPlan { replace_at: Some(rng.below(2) as u32), ..Default::default() },
        }
    } else {
        ErrPlan::default()
    };
    let s = E2Scn {
        family: "events".into(),
        throttle,
        event_cap: *rng.pick(&[1u32, 2, 4, 4096, 4096]),
        error_cap: *rng.pick(&[1u32, 2, 64]),
        handler_async,
        handler_durs,
        producers,
        verdicts,
        err_plan,
        init_paths: if fs { vec![(0, true)] } else { vec![] },
        probe: true,
        filter_slow,
        ..Default::default()
    };
    let mut s = s;
    s.err_plan.slow_ms = slow_ms;
    s.raw_changes = rng.chance(1, 5);
    if rng.chance(1, 5) {
        s.nudges.push(*rng.pick(&[0u64, 1, 10, 50, 200]));
    }
    s
}

/// dedicated arrival patterns for the debounce window
/// An event storm inside one long window: hundreds of events at one instant (all accepted, all rejected, or mixed),
/// sometimes an urgent one at the end, a probe afterwards. What a bounded buffer or a counter does at its 256th entry.
pub fn gen_storm(rng: &mut Rng) -> E2Scn {
    let throttle = *rng.pick(&[300u64, 1000, 5000]);
    let n = *rng.pick(&[40u64, 100, 257, 300, 600]);
    let mix = rng.below(4); // 0 all accepted, 1 all rejected, 2 mostly rejected with errors, 3 mixed
    let mut steps = Vec::new();
    let mut verdicts = Vec::new();
    // something ordinary first, so that the worker has been through a cycle
    steps.push(PStep { gap: 10, kind: PKind::Send { id: 5, prio: 1, empty: false } });
    for i in 0..n {
        let id = 10 + i as u32;
        let v = match mix {
            0 => 0,
            1 => 1,
            2 => {
                if i % 10 == 9 {
                    2
                } else {
                    1
                }
            }
            _ => (rng.below(3) == 0) as u8,
        };
        if v != 0 {
            verdicts.push((id, v));
        }
        let gap = if i == 0 { throttle + 2000 } else { *rng.pick(&[0u64, 0, 0, 1]) };
        steps.push(PStep { gap, kind: PKind::Send { id, prio: *rng.pick(&[0u8, 1, 1, 2]), empty: false } });
    }
    if rng.chance(1, 2) {
        // an urgent event (e.g. the interrupt signal) lands on the full window
        steps.push(PStep { gap: *rng.pick(&[0u64, 1, 50]), kind: PKind::Send { id: 5000, prio: 3, empty: false } });
    }
    E2Scn {
        family: "storm".into(),
        throttle,
        error_cap: *rng.pick(&[64u32, 64, 4]),
        handler_async: rng.chance(1, 3),
        handler_durs: vec![*rng.pick(&[0u64, 5])],
        producers: vec![steps],
        verdicts,
        probe: true,
        ..Default::default()
    }
}

/// A throttle that never ends (`Duration::MAX`: "only act on urgent events"), set at start-up or at run time: nothing is
/// delivered until an urgent event flushes the set.
pub fn gen_endless_window(rng: &mut Rng) -> E2Scn {
    let at_start = rng.chance(1, 2);
    let mut steps = Vec::new();
    if !at_start {
        steps.push(PStep { gap: 10, kind: PKind::Send { id: 5, prio: 1, empty: false } });
        steps.push(PStep { gap: 2000, kind: PKind::SetThrottle { ms: u64::MAX } });
    }
    for i in 0..rng.range(1, 5) {
        steps.push(PStep { gap: *rng.pick(&[1u64, 100, 3000]), kind: PKind::Send { id: 10 + i as u32, prio: *rng.pick(&[0u8, 1, 2]), empty: false } });
    }
    // the urgent event that lets everything through
    steps.push(PStep { gap: *rng.pick(&[1u64, 5000, 60_000]), kind: PKind::Send { id: 90, prio: 3, empty: false } });
    if rng.chance(1, 2) {
        steps.push(PStep { gap: 1000, kind: PKind::Send { id: 91, prio: 1, empty: false } });
        steps.push(PStep { gap: 1000, kind: PKind::Send { id: 92, prio: 3, empty: false } });
    }
    E2Scn { family: "endless-window".into(), throttle: if at_start { u64::MAX } else { 50 }, producers: vec![steps], probe: false, ..Default::default() }
}

pub fn gen_debounce(rng: &mut Rng) -> E2Scn {
    let throttle = *rng.pick(&[0u64, 1, 10, 50]);
    let mut steps = Vec::new();
    let mut verdicts = Vec::new();
    let mut id = 10;
    let mut push = |gap: u64, prio: u8, verdict: u8, steps: &mut Vec<PStep>, verdicts: &mut Vec<(u32, u8)>| {
        steps.push(PStep { gap, kind: PKind::Send { id, prio, empty: false } });
        if verdict != 0 {
            verdicts.push((id, verdict));
        }
        id += 1;
    };
    match rng.below(7) {
        0 => push(0, 1, 0, &mut steps, &mut verdicts),
        1 => {
            // burst inside a window
            push(0, 1, 0, &mut steps, &mut verdicts);
            for _ in 0..rng.range(1, 5) {
                push(throttle / 6, 1, 0, &mut steps, &mut verdicts);
            }
        }
        2 => {
            // event exactly at / just before / just after the window end
            push(0, 1, 0, &mut steps, &mut verdicts);
            let off = *rng.pick(&[throttle, throttle.saturating_sub(1), throttle + 1]);
            push(off, 1, 0, &mut steps, &mut verdicts);
        }
        3 => {
            // continuous stream of rejected events with period < throttle (starvation probe)
            push(0, 1, 0, &mut steps, &mut verdicts);
            for _ in 0..rng.range(5, 30) {
                push((throttle / 2).max(1), 1, 1, &mut steps, &mut verdicts);
            }
        }
        4 => {
            // continuous stream of accepted events
            for _ in 0..rng.range(5, 30) {
                push((throttle / 2).max(1), 1, 0, &mut steps, &mut verdicts);
            }
        }
        5 => {
            // urgent with an empty / non-empty set
            if rng.chance(1, 2) {
                push(0, 1, 0, &mut steps, &mut verdicts);
            }
            push(throttle / 3, 3, *rng.pick(&[0u8, 1]), &mut steps, &mut verdicts);
            push(1, 1, 0, &mut steps, &mut verdicts);
        }
        _ => {
            // throttle changed mid-window
            push(0, 1, 0, &mut steps, &mut verdicts);
            steps.push(PStep { gap: throttle / 2, kind: PKind::SetThrottle { ms: *rng.pick(&[0u64, 5, 100]) } });
            push(1, 1, 0, &mut steps, &mut verdicts);
        }
    }
    let handler_async = rng.chance(1, 2);
    E2Scn {
        family: "debounce".into(),
        throttle,
        handler_async,
        handler_durs: if handler_async { vec![*rng.pick(&[0u64, 1, throttle, throttle * 3])] } else { vec![0] },
        producers: vec![steps],
        verdicts,
        probe: false,
        ..Default::default()
    }
}

pub fn shrink_e2(s: &E2Scn) -> Vec<E2Scn> {
    let mut out = Vec::new();
    if s.producers.len() > 1 {
        for i in 0..s.producers.len() {
            let mut c = s.clone();
            c.producers.remove(i);
            out.push(c);
        }
    }
    for (pi, steps) in s.producers.iter().enumerate() {
        for i in 0..steps.len() {
            let mut c = s.clone();
            let r = c.producers[pi].remove(i);
            if let Some(n) = c.producers[pi].get_mut(i) {
                n.gap += r.gap;
            }
            out.push(c);
        }
    }
    macro_rules! drop_each {
        ($field:ident) => {
            for i in 0..s.$field.len() {
                let mut c = s.clone();
                c.$field.remove(i);
                out.push(c);
            }
        };
    }
    drop_each!(nudges);
    if s.raw_changes {
        let mut c = s.clone();
        c.raw_changes = false;
        out.push(c);
    }
    drop_each!(filter_slow);
    drop_each!(watch_slow);
    drop_each!(verdicts);
    drop_each!(cfg_steps);
    drop_each!(watch_faults);
    drop_each!(create_fail);
    drop_each!(mid_apply);
    drop_each!(in_action);
    drop_each!(in_error);
    drop_each!(jobs);
    if s.err_plan != ErrPlan::default() {
        let mut c = s.clone();
        c.err_plan = ErrPlan::default();
        out.push(c);
    }
    if s.err_plan.slow_ms > 0 {
        let mut c = s.clone();
        c.err_plan.slow_ms = 0;
        out.push(c);
        let mut c = s.clone();
        c.err_plan.slow_ms = s.err_plan.slow_ms / 2;
        out.push(c);
    }
    if s.handler_async {
        let mut c = s.clone();
        c.handler_async = false;
        c.handler_durs = vec![0];
        out.push(c);
    }
    if s.handler_durs.len() > 1 {
        let mut c = s.clone();
        c.handler_durs.truncate(1);
        out.push(c);
    }
    for (i, dms) in s.handler_durs.iter().enumerate() {
        for g in [0, 1, dms / 2] {
            if g < *dms {
                let mut c = s.clone();
                c.handler_durs[i] = g;
                out.push(c);
            }
        }
    }
    if s.event_cap != 4096 {
        let mut c = s.clone();
        c.event_cap = 4096;
        out.push(c);
    }
    if s.error_cap != 64 {
        let mut c = s.clone();
        c.error_cap = 64;
        out.push(c);
    }
    if s.probe {
        let mut c = s.clone();
        c.probe = false;
        out.push(c);
    }
    if s.hash_seed != 0 {
        let mut c = s.clone();
        c.hash_seed = 0;
        out.push(c);
    }
    if s.quit.is_some() && s.family != "quit" {
        let mut c = s.clone();
        c.quit = None;
        out.push(c);
    }
    for g in [0, 1, s.throttle / 2] {
        if g < s.throttle {
            let mut c = s.clone();
            c.throttle = g;
            out.push(c);
        }
    }
    for (pi, steps) in s.producers.iter().enumerate() {
        for (i, st) in steps.iter().enumerate() {
            for g in [0, 1, st.gap / 2] {
                if g < st.gap {
                    let mut c = s.clone();
                    c.producers[pi][i].gap = g;
                    out.push(c);
                }
            }
            if let PKind::Send { id, prio, empty } = st.kind {
                if prio != 1 {
                    let mut c = s.clone();
                    c.producers[pi][i].kind = PKind::Send { id, prio: 1, empty };
                    out.push(c);
                }
                if empty {
                    let mut c = s.clone();
                    c.producers[pi][i].kind = PKind::Send { id, prio, empty: false };
                    out.push(c);
                }
            }
        }
    }
    for (i, st) in s.cfg_steps.iter().enumerate() {
        for g in [0, 1, st.gap / 2] {
            if g < st.gap {
                let mut c = s.clone();
                c.cfg_steps[i].gap = g;
                out.push(c);
            }
        }
    }
    for (ji, j) in s.jobs.iter().enumerate() {
        for i in 0..j.ops.len() {
            let mut c = s.clone();
            c.jobs[ji].ops.remove(i);
            out.push(c);
        }
        for i in 0..j.later.len() {
            let mut c = s.clone();
            c.jobs[ji].later.remove(i);
            out.push(c);
        }
        if j.hold_clone {
            let mut c = s.clone();
            c.jobs[ji].hold_clone = false;
            out.push(c);
        }
        if j.grouped || j.session {
            let mut c = s.clone();
            c.jobs[ji].grouped = false;
            c.jobs[ji].session = false;
            out.push(c);
        }
    }
    out
}

pub fn e2_stats(scn: &E2Scn, d: &D2, stats: &mut Stats) {
    stats.add("probe:batches", d.batches.len() as u64);
    stats.add("probe:runtime-errors-delivered", d.errs.len() as u64);
    if scn.producers.len() >= 2 {
        stats.hit("probe:concurrent-producers");
    }
    if scn.event_cap <= 4 {
        stats.hit("probe:small-event-queue");
    }
    if scn.error_cap == 1 {
        stats.hit("probe:error-queue-of-one");
    }
    if scn.handler_async && scn.max_handler() > 0 {
        stats.hit("fault:stalled-action-handler");
    }
    if scn.err_plan.slow_ms > 0 && !d.errs.is_empty() {
        stats.hit("fault:slow-error-handler");
    }
    if !scn.filter_slow.is_empty() {
        stats.hit("fault:slow-filter");
    }
    if !scn.watch_slow.is_empty() {
        stats.hit("fault:slow-watcher-backend");
    }
    if d.err_actions.iter().any(|a| a.1 == "replace") {
        stats.hit("fault:handler-replaces-itself");
    }
    if d.sent.contains_key(&KEYBOARD_ID) {
        stats.hit("probe:keyboard-eof-event");
    }
    if d.sent.keys().any(|k| (SIGNAL_ID_BASE..KEYBOARD_ID).contains(k)) {
        stats.hit("probe:signal-event");
    }
    if !d.trysent.is_empty() {
        stats.hit("probe:fs-callback-event");
    }
    if !d.throttle_changes.is_empty() {
        stats.hit("probe:throttle-changed-at-run-time");
    }
    // an event straddling the window end: a passing filter call at the very instant a batch is delivered
    for b in &d.batches {
        if d.filter.values().flatten().any(|f| f.0 == b.0 && f.1 > b.1 && f.2 == 0) {
            stats.hit("probe:event-at-window-end-goes-to-next-batch");
        }
    }
}

pub const E2_RULE: &str = "scenario = 1-4 producer tasks sending 1-60 events (synthetic sends with priority Low..Urgent, some empty; signal / keyboard-EOF events through the sources' own constructors; watcher-callback events and errors through the real fs handler closure), scripted filter verdict pass/reject/error per event id, sync or async handler with virtual durations, event queue size 1..4096, error queue size 1..64, throttle 0..50 ms (changed at run time in some runs), error-handler behaviour; drawn from a seeded PRNG, run under a seeded scheduling policy. distinct = distinct hash of the full recorded history; non-trivial = at least two events were accepted and at least one batch was delivered";

pub fn e2_nontrivial(_scn: &E2Scn, out: &RunOut) -> bool {
    let acc = out.hist.iter().filter(|r| matches!(r.ev, Ev::EvSent { ok: true, .. } | Ev::EvTrySend { ok: true, .. })).count();
    acc >= 3 && out.hist.iter().any(|r| matches!(r.ev, Ev::Batch { .. }))
}

macro_rules! e2_check {
    ($name:ident, $prop:literal, $quick:expr, $thorough:expr, $gen:expr, $oracle:expr, $probes:expr) => {
        pub struct $name;
        impl Check for $name {
            type Scn = E2Scn;
            fn property(&self) -> &'static str {
                $prop
            }
            fn engine(&self) -> &'static str {
                "E2-wxsim"
            }
            fn budget(&self, tier: Tier) -> u64 {
                match tier {
                    Tier::Quick => $quick,
                    Tier::Thorough => $thorough,
                }
            }
            fn generate(&self, rng: &mut Rng, idx: u64, _tier: Tier) -> Option<E2Scn> {
                #[allow(clippy::redundant_closure_call)]
                Some(($gen)(rng, idx))
            }
            fn execute(&self, scn: &E2Scn, policy: Policy, sched_seed: u64) -> RunOut {
                e2::execute(scn, policy, sched_seed)
            }
            fn check(&self, scn: &E2Scn, out: &RunOut, stats: &mut Stats) -> Vec<Violation> {
                let d = digest2(out);
                e2_stats(scn, &d, stats);
                #[allow(clippy::redundant_closure_call)]
                ($oracle)(scn, &d, out, stats)
            }
            fn shrink(&self, scn: &E2Scn) -> Vec<E2Scn> {
                shrink_e2(scn)
            }
            fn nontrivial(&self, scn: &E2Scn, out: &RunOut) -> bool {
                e2_nontrivial(scn, out)
            }
            fn rule(&self) -> String {
                E2_RULE.into()
            }
            fn required_probes(&self, _tier: Tier) -> Vec<&'static str> {
                $probes
            }
            fn components(&self) -> Value {
                e2_components()
            }
            fn assumptions(&self) -> Vec<String> {
                e2_assumptions()
            }
        }
    };
}

e2_check!(
    C01,
    "C01",
    200_000,
    40_000_000,
    |rng: &mut Rng, idx: u64| if idx % 4 == 3 { gen_debounce(rng) } else if idx % 16 == 6 { gen_filter_replaced(rng) } else if idx % 200 == 9 { gen_storm(rng) } else if idx % 100 == 13 { gen_endless_window(rng) } else { gen_events_opt(rng, idx % 2 == 1, true) },
    |scn: &E2Scn, d: &D2, _out: &RunOut, stats: &mut Stats| oracle_c01(scn, d, stats),
    vec![
        "probe:urgent-event",
        "probe:empty-nonurgent-event",
        "probe:concurrent-producers",
        "probe:small-event-queue",
        "fault:event-queue-overflow",
        "fault:stalled-action-handler",
        "probe:signal-event",
        "probe:keyboard-eof-event",
        "probe:fs-callback-event",
        "probe:event-at-window-end-goes-to-next-batch",
        "probe:verdict-changed-by-filterer-replacement"
    ]
);

e2_check!(
    C02,
    "C02",
    200_000,
    40_000_000,
    |rng: &mut Rng, idx: u64| if idx % 200 == 8 { gen_storm(rng) } else if idx % 50 == 6 { gen_endless_window(rng) } else if idx % 2 == 0 { gen_debounce(rng) } else { gen_events(rng, idx % 4 == 1) },
    |scn: &E2Scn, d: &D2, _out: &RunOut, stats: &mut Stats| oracle_c02(scn, d, stats),
    vec![
        "probe:non-urgent-batch-judged",
        "probe:urgent-flush",
        "probe:urgent-flush-with-nonempty-set",
        "probe:batch-exactly-at-window-end",
        "probe:throttle-changed-at-run-time",
        "probe:event-at-window-end-goes-to-next-batch"
    ]
);

// ------------------------------------------------------------------------------------------
// C13: watcher registration converges  (+ the watcher side of C15)

#[derive(Default, Debug)]
pub struct W2 {
    /// (t, seq, w, what, path, rec, ok)
    pub calls: Vec<(u64, u32, u32, &'static str, u8, bool, bool)>,
    /// (t, seq, w, poll_ms (-1 native), ok)
    pub created: Vec<(u64, u32, u32, i64, bool)>,
    pub dropped: Vec<(u64, u32, u32)>,
    /// (seq, change text)
    pub changes: Vec<(u64, u32, String)>,
    pub generations: Vec<(u32, &'static str, i64)>,
    pub mid_apply: u32,
}

pub fn digest_w(out: &RunOut) -> W2 {
    let mut w = W2::default();
    for r in &out.hist {
        match &r.ev {
            Ev::Note { what: "scenario-over", .. } => break,
            Ev::Watcher { w: id, what, path, rec, ok } => w.calls.push((r.t, r.seq, *id, what, *path, *rec, *ok)),
            Ev::WatcherNew { w: id, poll_ms, ok } => w.created.push((r.t, r.seq, *id, *poll_ms, *ok)),
            Ev::WatcherDrop { w: id } => w.dropped.push((r.t, r.seq, *id)),
            Ev::CfgChange { what, .. } => w.changes.push((r.t, r.seq, what.clone())),
            Ev::Note { what: what @ ("action-handler-generation" | "error-handler-generation"), a, .. } => w.generations.push((r.seq, what, *a)),
            Ev::Note { what: "mid-apply-change", .. } => w.mid_apply += 1,
            _ => {}
        }
    }
    w
}

/// final configured (pathset, poll?) after replaying the scenario's changes in the order they were applied
fn final_config(scn: &E2Scn, out: &RunOut, qseq: u32) -> (BTreeMap<u8, bool>, i64) {
    let mut paths: BTreeMap<u8, bool> = scn.init_paths.iter().copied().collect();
    let mut poll: i64 = scn.init_poll.map(|p| p as i64).unwrap_or(-1);
    // CfgChange records carry the Debug text of the change; re-derive from the scenario by matching text
    let all: Vec<&Change> = scn.all_changes();
    for r in &out.hist {
        if r.seq >= qseq {
            break;
        }
        if let Ev::CfgChange { what, .. } = &r.ev {
            if let Some(c) = all.iter().find(|c| format!("{c:?}") == *what) {
                match c {
                    Change::Pathset(ps) => paths = ps.iter().copied().collect(),
                    Change::FileWatcher(k) => poll = k.map(|p| p as i64).unwrap_or(-1),
                    _ => {}
                }
            }
        }
        if matches!(r.ev, Ev::Note { what: "scenario-over", .. }) {
            break;
        }
    }
    (paths, poll)
}

fn kind_name(poll_ms: i64) -> String {
    if poll_ms < 0 {
        "Native".into()
    } else {
        format!("Poll({poll_ms}ms)")
    }
}

pub fn oracle_c13(scn: &E2Scn, d: &D2, out: &RunOut, stats: &mut Stats) -> Vec<Violation> {
    let mut vs = Vec::new();
    let mut w = digest_w(out);
    let qseq = d.quiescent.map(|q| q.1).unwrap_or(u32::MAX);
    // what happens after the quiescence point (the final marker's batch) is not judged
    w.changes.retain(|c| c.1 < qseq);
    w.calls.retain(|c| c.1 < qseq);
    w.created.retain(|c| c.1 < qseq);
    let (want, want_poll) = final_config(scn, out, qseq);
    stats.add("probe:config-changes", w.changes.len() as u64);
    stats.add("probe:change-landed-mid-apply", w.mid_apply as u64);
    stats.add("fault:watch-or-unwatch-failure", w.calls.iter().filter(|c| !c.6).count() as u64);
    let create_failed = w.created.iter().any(|c| !c.4);
    if create_failed {
        stats.hit("fault:watcher-creation-failure");
        // a watcher that cannot be created is a critical error: main ends with it
        match &d.main_end {
            Some((_, _, false, msg)) if msg.contains("FsWatcherInit") || msg.contains("fs watcher") => {}
            other => vs.push(Violation::new("creation-failure-not-critical", "", format!("watcher creation failed but main ended: {other:?}"))),
        }
        return vs;
    }
    let escalated = d.err_actions.iter().any(|a| a.1 == "elevate" || a.1 == "critical");
    if escalated {
        return vs;
    }
    // live watchers at quiescence
    let live: Vec<&(u64, u32, u32, i64, bool)> = w.created.iter().filter(|c| c.4 && c.1 < qseq && !w.dropped.iter().any(|dr| dr.2 == c.2 && dr.1 < qseq)).collect();
    if live.len() > 1 {
        vs.push(Violation::new("two-live-watchers", "", format!("{} watchers alive at quiescence: {:?}", live.len(), live.iter().map(|l| l.2).collect::<Vec<_>>())));
    }
    if w.created.iter().filter(|c| c.4).count() >= 2 {
        stats.hit("probe:watcher-recreated");
    }
    if want.is_empty() {
        stats.hit("probe:pathset-emptied");
        if !live.is_empty() && !w.changes.is_empty() {
            vs.push(Violation::new("watcher-not-released", "", format!("configured path set is empty but watcher {} is still alive", live[0].2)));
        }
        return vs;
    }
    let Some(lw) = live.last() else {
        vs.push(Violation::new("no-watcher", "", format!("configured paths {want:?} but no watcher is alive at quiescence")));
        return vs;
    };
    if lw.3 != want_poll {
        vs.push(Violation::new(
            "wrong-watcher-kind",
            "",
            format!("configured watcher kind is {} but the live watcher {} is {}", kind_name(want_poll), lw.2, kind_name(lw.3)),
        ));
    }
    // registered set of the live watcher, from its successful calls
    let mut reg: BTreeMap<u8, bool> = BTreeMap::new();
    let mut last_call: BTreeMap<u8, (&'static str, bool)> = BTreeMap::new();
    let mut last_call_seq: BTreeMap<u8, u32> = BTreeMap::new();
    // every configuration change wakes the worker, and every pass attempts all that is still missing (or still to
    // be dropped): a failed attempt excuses a difference only if it was made after the last change
    let last_change = w.changes.last().map(|c| c.1).unwrap_or(0);
    for c in w.calls.iter().filter(|c| c.2 == lw.2 && c.1 < qseq) {
        last_call.insert(c.4, (c.3, c.6));
        last_call_seq.insert(c.4, c.1);
        if c.6 {
            if c.3 == "watch" {
                reg.insert(c.4, c.5);
            } else {
                reg.remove(&c.4);
            }
        }
    }
    let kind_switched = w.created.iter().filter(|c| c.4).map(|c| c.3 >= 0).collect::<BTreeSet<_>>().len() > 1;
    let ctx = if kind_switched { "after-kind-switch" } else if w.mid_apply > 0 { "change-mid-apply" } else { "" };
    for (p, rec) in &want {
        match reg.get(p) {
            Some(r) if r == rec => {}
            Some(r) => vs.push(Violation::new("wrong-recursive-mode", ctx, format!("path p{p} configured recursive={rec} but registered recursive={r}"))),
            None => {
                if last_call.get(p) == Some(&("watch", false)) && last_call_seq[p] < last_change {
                    vs.push(Violation::new(
                        "failed-path-not-retried",
                        "source=watch",
                        format!("path p{p} is configured, its registration failed at #{} and it was not attempted again although the configuration changed at #{last_change}", last_call_seq[p]),
                    ));
                } else if last_call.get(p) != Some(&("watch", false)) {
                    vs.push(Violation::new(
                        "configured-path-not-registered",
                        ctx,
                        format!("path p{p} is configured but not registered with the live watcher {} (registered: {reg:?}, configured: {want:?}; last call for it: {:?})", lw.2, last_call.get(p)),
                    ));
                }
            }
        }
    }
    for p in reg.keys() {
        if !want.contains_key(p) && last_call.get(p) == Some(&("unwatch", false)) && last_call_seq[p] < last_change {
            vs.push(Violation::new(
                "failed-path-not-retried",
                "source=unwatch",
                format!("path p{p} is no longer configured, its removal failed at #{} and it was not attempted again although the configuration changed at #{last_change}", last_call_seq[p]),
            ));
        } else if !want.contains_key(p) && last_call.get(p) != Some(&("unwatch", false)) {
            vs.push(Violation::new(
                "deconfigured-path-still-registered",
                ctx,
                format!("path p{p} is no longer configured but still registered with watcher {} (registered: {reg:?}, configured: {want:?})", lw.2),
            ));
        }
    }
    // each failed attempt: exactly one runtime error naming the path; the others are still processed
    for what in ["watch", "unwatch"] {
        for p in 0..8u8 {
            let attempts = w.calls.iter().filter(|c| c.3 == what && c.4 == p && !c.6).count();
            let tag = format!("sim-{what}-fails-p{p}\"");
            let errs = d.errs.iter().filter(|e| e.1 < qseq && e.2.contains(&tag)).count();
            if attempts != errs && d.main_end.as_ref().map_or(true, |m| m.1 > qseq) {
                vs.push(Violation::new(
                    if errs < attempts { "runtime-error-lost" } else { "runtime-error-duplicated" },
                    &format!("source={what}"),
                    format!("{attempts} failed {what}(p{p}) attempts but {errs} runtime errors naming it"),
                ));
            }
        }
    }
    // reconfiguring from inside a handler: the invocation in progress keeps the old handler, the next one uses the new
    let mut act_gen = 0i64;
    let mut err_gen = 0i64;
    let mut replaces: Vec<(u32, &str)> = Vec::new();
    for (_, seq, what) in &w.changes {
        if what == "ReplaceActionHandler" {
            replaces.push((*seq, "a"));
        } else if what == "ReplaceErrorHandler" {
            replaces.push((*seq, "e"));
        }
    }
    // walk history: a generation note must equal the number of replacements applied before its invocation began
    let mut inv_start: Vec<(u32, &str, i64)> = Vec::new(); // (seq of Batch / RtErr, kind, generation at that point)
    for r in &out.hist {
        match &r.ev {
            Ev::CfgChange { what, .. } if what == "ReplaceActionHandler" => act_gen += 1,
            Ev::CfgChange { what, .. } if what == "ReplaceErrorHandler" => err_gen += 1,
            Ev::Batch { .. } => inv_start.push((r.seq, "a", act_gen)),
            Ev::RtErr { .. } => inv_start.push((r.seq, "e", err_gen)),
            Ev::Note { what: "action-handler-generation", a, .. } => {
                if let Some((_, _, g)) = inv_start.iter().rev().find(|i| i.1 == "a") {
                    if g != a {
                        vs.push(Violation::new("handler-generation-mismatch", "action", format!("action invocation at #{} ran handler generation {a}, expected {g}", r.seq)));
                    }
                    if act_gen > *g {
                        stats.hit("probe:handler-replaced-from-inside-itself");
                    }
                }
            }
            Ev::Note { what: "error-handler-generation", a, .. } => {
                if let Some((_, _, g)) = inv_start.iter().rev().find(|i| i.1 == "e") {
                    if g != a {
                        vs.push(Violation::new("handler-generation-mismatch", "error", format!("error-handler invocation at #{} ran generation {a}, expected {g}", r.seq)));
                    }
                }
            }
            Ev::Note { what: "scenario-over", .. } => break,
            _ => {}
        }
    }
    let _ = replaces;
    if kind_switched {
        stats.hit("probe:watcher-kind-switched-with-paths");
    }
    vs
}

pub fn gen_paths(rng: &mut Rng) -> Vec<(u8, bool)> {
    // 3-path universe x {recursive, non-recursive}: 27 path sets
    let mut v = Vec::new();
    for p in 0..3u8 {
        match rng.below(3) {
            0 => {}
            1 => v.push((p, true)),
            _ => v.push((p, false)),
        }
    }
    // (added after A18-C13r) the configured list is a Vec: an entry may be listed twice (`-w a -w a`)
    if !v.is_empty() && rng.chance(1, 6) {
        let dup = v[rng.below(v.len() as u64) as usize];
        let at = rng.below(v.len() as u64 + 1) as usize;
        v.insert(at, dup);
    }
    v
}

pub fn gen_change(rng: &mut Rng) -> Change {
    match rng.below(12) {
        0..=5 => Change::Pathset(gen_paths(rng)),
        6 | 7 => Change::FileWatcher(if rng.chance(1, 2) { None } else { Some(*rng.pick(&[10u64, 100])) }),
        8 => Change::KeyboardOff,
        9 => Change::Throttle(*rng.pick(&[0u64, 10, 50])),
        10 => Change::ReplaceActionHandler,
        _ => Change::ReplaceErrorHandler,
    }
}

pub fn gen_fswatch(rng: &mut Rng, faults: bool) -> E2Scn {
    let mut s = E2Scn { family: "fswatch".into(), throttle: *rng.pick(&[0u64, 10, 50]), ..Default::default() };
    s.init_paths = gen_paths(rng);
    s.init_poll = if rng.chance(1, 4) { Some(50) } else { None };
    let long = rng.chance(1, 4);
    // (one in 25: a long series of changes)
    let n = if rng.chance(1, 25) { rng.range(12, 40) } else { rng.range(1, if long { 8 } else { 3 }) };
    for _ in 0..n {
        let c = gen_change(rng);
        match rng.below(10) {
            0..=4 => s.cfg_steps.push(CfgStep { gap: *rng.pick(&[0u64, 0, 1, 10, 100]), change: c }),
            5 | 6 => s.mid_apply.push((rng.below(6) as u32, c)),
            7 | 8 => s.in_action.push((rng.below(3) as u32, c)),
            _ => s.in_error.push((rng.below(2) as u32, c)),
        }
    }
    // events so that handlers run (and in_action changes fire)
    let mut steps = Vec::new();
    for i in 0..rng.range(1, 4) {
        steps.push(PStep { gap: *rng.pick(&[0u64, 5, 60, 200]), kind: PKind::Send { id: 10 + i as u32, prio: 1, empty: false } });
    }
    s.producers = vec![steps];
    if faults {
        for _ in 0..rng.range(1, 2) {
            s.watch_faults.push(e2::WFault { path: rng.below(3) as u8, on_watch: rng.chance(2, 3), persistent: rng.chance(1, 2) });
        }
        s.error_cap = *rng.pick(&[1u32, 1, 2, 64]);
        if rng.chance(1, 12) {
            s.create_fail.push(rng.below(2) as u32);
        }
        if !s.in_error.is_empty() || rng.chance(1, 8) {
            // make sure some error exists for in_error changes to fire on
            s.verdicts.push((10, 2));
        }
    }
    s.handler_async = rng.chance(1, 3);
    if s.handler_async {
        s.handler_durs = vec![*rng.pick(&[0u64, 5, 30])];
    }
    s.hash_seed = rng.below(8);
    if rng.chance(1, 4) {
        // slow watcher backend: the fs worker is stalled in the middle of an apply
        s.watch_slow.push((rng.below(6) as u32, *rng.pick(&[5u64, 50, 300])));
    }
    if faults && rng.chance(1, 4) {
        s.err_plan.slow_ms = *rng.pick(&[10u64, 60, 300]);
    }
    // the documented "advanced" way of changing things: replace the public field, call signal_change() by hand
    s.raw_changes = rng.chance(1, 4);
    // ... and change signals with nothing changed
    for _ in 0..rng.below(3) {
        if rng.chance(1, 2) {
            s.nudges.push(*rng.pick(&[0u64, 1, 10, 50, 200, 1000]));
        }
    }
    s
}

use crate::e2::CfgStep;

/// bounded-exhaustive: every sequence of <= 2 changes (quick) over 27 path sets + 3 watcher kinds + 3 noise changes, from 3 initial configs
pub fn exh_changes() -> Vec<Change> {
    let mut v = Vec::new();
    for a in 0..3u8 {
        for b in 0..3u8 {
            for c in 0..3u8 {
                let mut ps = Vec::new();
                for (p, m) in [(0u8, a), (1, b), (2, c)] {
                    match m {
                        1 => ps.push((p, true)),
                        2 => ps.push((p, false)),
                        _ => {}
                    }
                }
                v.push(Change::Pathset(ps));
            }
        }
    }
    v.push(Change::FileWatcher(None));
    v.push(Change::FileWatcher(Some(100)));
    v.push(Change::FileWatcher(Some(10)));
    v.push(Change::KeyboardOff);
    v.push(Change::Throttle(10));
    v.push(Change::ReplaceActionHandler);
    v
}

pub fn exh_fswatch_count(len: u32) -> u64 {
    let a = exh_changes().len() as u64;
    (1..=len).map(|l| a.pow(l) * 3 * 2).sum()
}

pub fn exh_fswatch(mut idx: u64, max_len: u32) -> Option<E2Scn> {
    let idx0 = idx;
    let alpha = exh_changes();
    let a = alpha.len() as u64;
    let mut len = 0;
    for l in 1..=max_len {
        let n = a.pow(l) * 3 * 2;
        if idx < n {
            len = l;
            break;
        }
        idx -= n;
    }
    if len == 0 {
        return None;
    }
    let init = idx % 3;
    idx /= 3;
    let spaced = idx % 2 == 1;
    let raw_changes = idx0 % 5 == 3;
    idx /= 2;
    let mut s = E2Scn { family: "fswatch-exh".into(), throttle: 10, ..Default::default() };
    s.init_paths = match init {
        0 => vec![],
        1 => vec![(0, true)],
        _ => vec![(0, true), (1, false), (2, true)],
    };
    for i in 0..len {
        let k = (idx % a) as usize;
        idx /= a;
        s.cfg_steps.push(CfgStep { gap: if spaced { 100 } else if i == 0 { 1 } else { 0 }, change: alpha[k].clone() });
    }
    s.hash_seed = idx0 % 4;
    s.raw_changes = raw_changes;
    Some(s)
}

e2_check!(
    C13,
    "C13",
    exh_fswatch_count(2) + 200_000,
    2 * exh_fswatch_count(3) + 30_000_000,
    |rng: &mut Rng, idx: u64| {
        // quick: idx < count(2) exhaustive; thorough sees larger idx ranges first (count(3) twice)
        let n2 = exh_fswatch_count(2);
        let n3 = exh_fswatch_count(3);
        if idx < n2 {
            exh_fswatch(idx, 2).unwrap()
        } else if idx >= n2 + 200_000 && idx < n2 + 200_000 + 2 * n3 {
            exh_fswatch((idx - n2 - 200_000) % n3, 3).unwrap()
        } else {
            gen_fswatch(rng, idx % 2 == 1)
        }
    },
    |scn: &E2Scn, d: &D2, out: &RunOut, stats: &mut Stats| oracle_c13(scn, d, out, stats),
    vec![
        "probe:config-changes",
        "probe:change-landed-mid-apply",
        "fault:watch-or-unwatch-failure",
        "probe:watcher-recreated",
        "probe:pathset-emptied",
        "probe:watcher-kind-switched-with-paths",
        "probe:handler-replaced-from-inside-itself",
        "fault:watcher-creation-failure"
    ]
);

e2_check!(
    C15,
    "C15",
    200_000,
    40_000_000,
    |rng: &mut Rng, idx: u64| match idx % 4 {
        0 | 1 => {
            let mut s = gen_events_opt(rng, true, true);
            if rng.chance(1, 2) && s.err_plan.elevate_at.is_none() && s.err_plan.critical_at.is_none() && s.err_plan.replace_at.is_none() {
                let slow = s.err_plan.slow_ms;
                s.err_plan = match rng.below(3) {
                    0 => ErrPlan { elevate_at: Some(rng.below(3) as u32), ..Default::default() },
                    1 => ErrPlan { critical_at: Some(rng.below(3) as u32), ..Default::default() },
                    _ => ErrPlan { replace_at: Some(rng.below(2) as u32), ..Default::default() },
                };
                s.err_plan.slow_ms = slow;
                // sometimes an earlier call keeps its hook alive: that must not mute a later escalation
                let k = s.err_plan.elevate_at.or(s.err_plan.critical_at).unwrap_or(0);
                if k >= 1 && rng.chance(1, 3) {
                    s.err_plan.park_at = Some(rng.below(k as u64) as u32);
                }
            }
            s
        }
        2 => {
            // error burst larger than the error queue: many filter errors at one instant, error queue of 1 or 2
            let mut s = gen_events_opt(rng, true, true);
            s.error_cap = *rng.pick(&[1u32, 2]);
            if rng.chance(1, 2) {
                s.err_plan.slow_ms = *rng.pick(&[60u64, 300, 700]);
            }
            let ids: Vec<u32> = s.producers.iter().flatten().filter_map(|p| if let PKind::Send { id, prio, empty: false } = p.kind { if prio < 3 { Some(id) } else { None } } else { None }).collect();
            s.verdicts.retain(|v| !ids.contains(&v.0));
            for id in ids {
                if rng.chance(2, 3) {
                    s.verdicts.push((id, 2));
                }
            }
            for p in s.producers.iter_mut() {
                for st in p.iter_mut() {
                    if rng.chance(2, 3) {
                        st.gap = 0;
                    }
                }
            }
            s
        }
        _ => {
            let mut s = gen_fswatch(rng, true);
            s.probe = true;
            if rng.chance(1, 3) {
                // a poll watcher that cannot scan some of its paths reports that from inside watch(), on the fs worker's
                // own thread; with a small error queue and a slow handler the queue is full when it does
                s.init_poll = Some(*rng.pick(&[50u64, 500]));
                s.poll_scan_errors = (0..8u8).filter(|_| rng.chance(1, 2)).collect();
                s.error_cap = *rng.pick(&[1u32, 2, 4]);
                if rng.chance(1, 2) {
                    s.err_plan.slow_ms = *rng.pick(&[60u64, 300]);
                }
            }
            s
        }
    },
    |scn: &E2Scn, d: &D2, out: &RunOut, stats: &mut Stats| {
        let mut vs = oracle_c15_events(scn, d, stats);
        // (2) only the event / path concerned is affected
        vs.extend(oracle_c01(scn, d, stats).into_iter().map(|mut v| {
            v.signature = format!("containment: {}", v.signature);
            v
        }));
        if scn.family == "fswatch" {
            vs.extend(oracle_c13(scn, d, out, stats).into_iter().map(|mut v| {
                v.signature = format!("containment: {}", v.signature);
                v
            }));
        }
        vs
    },
    vec![
        "fault:filter-error",
        "fault:watch-or-unwatch-failure",
        "fault:watcher-callback-error",
        "fault:event-queue-overflow",
        "fault:handler-elevates",
        "fault:handler-raises-critical",
        "fault:handler-replaces-itself",
        "probe:error-queue-of-one",
        "probe:error-burst-larger-than-queue",
        "probe:liveness-probe-delivered"
    ]
);

// ------------------------------------------------------------------------------------------
// C08: quit terminates and leaves nothing behind

use crate::child::{ChildSpec, SigReact};
use crate::e1::{self, Op};
use crate::e2::{JobPlan, QuitPlan};

pub fn gen_quit(rng: &mut Rng) -> E2Scn {
    let mut s = E2Scn { family: "quit".into(), throttle: *rng.pick(&[0u64, 10]), probe: false, ..Default::default() };
    let n_jobs = match rng.below(25) {
        0 | 1 => 0,
        2..=15 => 1,
        16..=20 => 2,
        21..=23 => 3,
        // many jobs
        _ => rng.range(6, 14),
    };
    let quit_batch = rng.range(0, 2) as u32;
    let graceful = if rng.chance(1, 2) { None } else { Some((*rng.pick(&[15i32, 2, 1, 10, 9, 9]), *rng.pick(&[0u64, 0, 1, 10, 100, 1000, 10_000]))) };
    for _ in 0..n_jobs {
        let at_batch = rng.range(0, quit_batch as u64) as u32;
        let react = match rng.below(4) {
            0 => SigReact::Exit(0),
            1 => SigReact::Exit(*rng.pick(&[1u64, 5, 50, 500])),
            _ => SigReact::Ignore,
        };
        let self_exit = if rng.chance(1, 4) { Some(*rng.pick(&[0u64, 5, 50, 300])) } else { None };
        let grandchildren = if rng.chance(1, 3) { rng.range(1, 2) as u8 } else { 0 };
        let mut child = ChildSpec { self_exit, code: 0, on_signal: react, grandchildren, ..Default::default() };
        // operations on the process that fail: the force-kill (once), wait() in mid-run
        if rng.chance(1, 8) {
            child.fail_kill = true;
        }
        if rng.chance(1, 10) {
            child.wait_fail_after = Some(*rng.pick(&[1u64, 20, 300]));
        }
        // job state at the moment of the quit
        let mut ops: Vec<Op> = Vec::new();
        let mut later: Vec<(u64, Op)> = Vec::new();
        match rng.below(11) {
            9 => {
                // abort / quit lands while the job task awaits an async spawn hook (nothing spawned yet)
                ops.push(Op::SetHook { async_ms: Some(*rng.pick(&[5u64, 50, 500])) });
                ops.push(Op::Start);
            }
            10 => {
                // ... or an async error handler after a failed spawn
                ops.push(Op::SetErr { async_ms: Some(*rng.pick(&[5u64, 50])) });
                ops.push(Op::Start);
                ops.push(Op::Start);
            }
            0 => {} // never started
            1 | 2 => ops.push(Op::Start), // running (or finished if it exits by itself)
            3 => {
                // mid graceful stop with an armed timer
                ops.push(Op::Start);
                ops.push(Op::StopSig { sig: 3, grace: *rng.pick(&[5u64, 50, 500, 5000]) });
            }
            4 => {
                // mid graceful restart
                ops.push(Op::Start);
                ops.push(Op::TryRestartSig { sig: 3, grace: *rng.pick(&[5u64, 50, 500]) });
            }
            5 => {
                // deleted but not yet collected
                ops.push(Op::Start);
                ops.push(Op::Delete);
            }
            6 => {
                // pending queued controls that take time
                ops.push(Op::Start);
                ops.push(Op::RunAsync { ms: *rng.pick(&[5u64, 50, 200]) });
                ops.push(Op::Run);
            }
            7 => {
                // controls still arriving from another task around the quit
                ops.push(Op::Start);
                later.push((*rng.pick(&[0u64, 1, 5, 50]), Op::Restart));
                later.push((*rng.pick(&[0u64, 1, 5, 50]), Op::Signal { sig: 12 }));
            }
            _ => {
                ops.push(Op::Start);
                ops.push(Op::Stop);
            }
        }
        s.jobs.push(JobPlan {
            at_batch,
            grouped: rng.chance(1, 2),
            session: rng.chance(1, 8),
            children: vec![child],
            ops,
            later,
            hold_clone: rng.chance(1, 3),
            fixed_id: None,
        });
    }
    let mut quit_batch = quit_batch;
    if rng.chance(1, 4) {
        // a job under a fixed id is deleted (or just ends) and re-created under the same id in a later action
        let first_ops = match rng.below(3) {
            0 => vec![Op::Start, Op::Delete],
            1 => vec![Op::Start, Op::DeleteNow],
            _ => vec![Op::Delete],
        };
        let child = ChildSpec { on_signal: if rng.chance(1, 2) { SigReact::Exit(0) } else { SigReact::Ignore }, ..Default::default() };
        s.jobs.push(JobPlan { at_batch: 0, grouped: false, session: false, children: vec![child.clone()], ops: first_ops, later: vec![], hold_clone: false, fixed_id: Some(0) });
        s.jobs.push(JobPlan { at_batch: 1, grouped: rng.chance(1, 2), session: false, children: vec![child], ops: vec![Op::Start], later: vec![], hold_clone: rng.chance(2, 3), fixed_id: Some(0) });
        quit_batch = quit_batch.max(2);
    }
    // "wait for ever" (Duration::MAX) as the quit's grace period, when every process obeys the signal anyway
    let mut graceful = graceful;
    if let Some((sig, _)) = graceful {
        let all_obey = s.jobs.iter().all(|j| j.children.iter().all(|c| matches!(c.on_signal, SigReact::Exit(_)))) && sig != 9;
        if all_obey && rng.chance(1, 6) {
            graceful = Some((sig, u64::MAX));
        }
    }
    s.quit = Some(QuitPlan { at_batch: quit_batch, graceful });
    // while the worker waits out the grace period, the watcher backend reports an error that the error handler escalates:
    // main ends with that critical error in the middle of the quit
    let escalate_mid_quit = matches!(graceful, Some((_, g)) if g >= 100) && rng.chance(1, 4);
    if escalate_mid_quit {
        s.init_paths = vec![(0, true)];
        s.err_plan = if rng.chance(1, 2) { ErrPlan { elevate_at: Some(0), ..Default::default() } } else { ErrPlan { critical_at: Some(0), ..Default::default() } };
    }
    // events that produce batches 0..=quit_batch, spaced so that jobs are caught at different points
    let mut steps = Vec::new();
    for b in 0..=quit_batch + 1 {
        steps.push(PStep { gap: if b == 0 { 0 } else { *rng.pick(&[1u64, 3, 20, 60, 400]) }, kind: PKind::Send { id: 10 + b, prio: 3, empty: false } });
    }
    s.producers = vec![steps];
    if escalate_mid_quit {
        // (the quit batch is sent 400 ms into the run at the latest; the error arrives some time after that)
        s.producers.push(vec![PStep { gap: *rng.pick(&[30u64, 450, 900, 1500]), kind: PKind::FsErr { tag: 77 } }]);
    }
    s.handler_async = rng.chance(1, 3);
    if s.handler_async {
        s.handler_durs = vec![*rng.pick(&[0u64, 2, 30])];
    }
    s
}

pub fn oracle_c08(scn: &E2Scn, d: &D2, out: &RunOut, stats: &mut Stats) -> Vec<Violation> {
    let mut vs = Vec::new();
    let Some(qp) = &scn.quit else { return vs };
    let Some(q) = d.quit_req.iter().find(|r| r.2 != "final") else {
        return vs;
    };
    let qbatch_end = d.batch_end.get(qp.at_batch as usize).map(|e| e.0).unwrap_or(q.0);
    let manner = if qp.graceful.is_some() { "graceful" } else { "abort" };
    stats.hit(if qp.graceful.is_some() { "probe:graceful-quit" } else { "probe:abort-quit" });
    // children and what was going on at the quit
    let ed = e1::digest(out);
    let mut remaining_max = 0u64;
    for (ji, plan) in scn.jobs.iter().enumerate() {
        if plan.at_batch > qp.at_batch {
            continue;
        }
        if plan.at_batch == qp.at_batch {
            stats.hit("probe:quit-in-the-action-that-created-the-job");
        }
        if plan.hold_clone {
            stats.hit("probe:handle-clone-held-elsewhere");
        }
        let kids: Vec<&e1::ChildRec> = ed.children.iter().filter(|c| c.job == ji as u8 && c.spawn_seq > 0 && c.spawn_t <= q.0).collect();
        let alive_at_q = kids.iter().any(|c| c.exit.map(|e| e.0 > q.0).unwrap_or(true));
        if kids.is_empty() {
            stats.hit("probe:quit-with-never-started-job");
        } else if alive_at_q {
            stats.hit("probe:quit-with-running-job");
        } else {
            stats.hit("probe:quit-with-finished-job");
        }
        // remainder of a pending graceful stop at q, plus queued time-consuming work
        let mut rem = 0u64;
        // async spawn hooks / error handlers installed on the job take their time at every spawn attempt
        let hook_ms: u64 = plan.ops.iter().map(|o| if let Op::SetHook { async_ms: Some(ms) } = o { *ms } else { 0 }).max().unwrap_or(0);
        let err_ms: u64 = plan.ops.iter().map(|o| if let Op::SetErr { async_ms: Some(ms) } = o { *ms } else { 0 }).max().unwrap_or(0);
        let spawning = plan.ops.iter().chain(plan.later.iter().map(|l| &l.1)).filter(|o| o.spawn_capable()).count() as u64;
        rem += (hook_ms + err_ms) * spawning;
        if hook_ms + err_ms > 0 {
            stats.hit("probe:quit-with-async-hook-or-error-handler");
        }
        for op in plan.ops.iter().chain(plan.later.iter().map(|l| &l.1)) {
            match op {
                Op::StopSig { grace, .. } | Op::TryRestartSig { grace, .. } | Op::RestartSig { grace, .. } => {
                    // armed if its signal was delivered to a child still alive at q
                    for c in &kids {
                        if let Some(sg) = c.signals.iter().find(|s| s.2 == 3 && s.3) {
                            let deadline = sg.0.saturating_add(*grace);
                            if deadline > q.0 && c.exit.map(|e| e.0 > q.0).unwrap_or(true) {
                                rem = rem.max(deadline - q.0);
                                stats.hit("probe:quit-with-armed-timer");
                            }
                        }
                    }
                }
                Op::RunAsync { ms } => {
                    rem += ms;
                    stats.hit("probe:quit-with-pending-async-control");
                }
                Op::Delete => stats.hit("probe:quit-with-deleted-job"),
                _ => {}
            }
        }
        remaining_max = remaining_max.max(rem);
    }
    let _ = &ed;
    // an error escalated by the error handler while the quit is in progress ends main with that critical error instead:
    // the quit's own timing is then moot, what must still hold is that nothing is left behind
    let escalated = d.err_actions.iter().any(|a| a.1 == "elevate" || a.1 == "critical");
    if escalated {
        stats.hit("probe:critical-error-while-quitting");
    }
    match &d.main_end {
        None => vs.push(Violation::new("quit-never-terminates", manner, format!("{manner} quit requested at t={} but main never ended", q.0))),
        Some(_) if escalated => {}
        Some((mt, _, ok, msg)) => {
            if !*ok {
                vs.push(Violation::new("quit-returned-error", manner, format!("main ended with {msg}")));
            }
            match qp.graceful {
                None => {
                    if *mt != qbatch_end {
                        vs.push(Violation::new("abort-quit-not-prompt", "", format!("abort quit: handler returned at t={qbatch_end} but main ended at t={mt}")));
                    }
                }
                Some((_, grace)) => {
                    if grace == u64::MAX {
                        stats.hit("probe:quit-with-unbounded-grace");
                    }
                    let bound = qbatch_end.saturating_add(remaining_max).saturating_add(grace).saturating_add(2);
                    if *mt > bound {
                        vs.push(Violation::new(
                            "graceful-quit-late",
                            "",
                            format!("graceful quit (grace {grace} ms): handler returned at t={qbatch_end}, pending graceful stop / queued work {remaining_max} ms, bound t<={bound}, main ended at t={mt}"),
                        ));
                    }
                }
            }
        }
    }
    // the command is spawned with kill-on-drop and, when asked for, in its own process group / session
    for r in &out.hist {
        if let Ev::Spawn { job, child, kill_on_drop, group, session, .. } = &r.ev {
            if let Some(plan) = scn.jobs.get(*job as usize) {
                let want_session = plan.session;
                let want_group = plan.grouped && !plan.session;
                if !*kill_on_drop || *group != want_group || *session != want_session {
                    vs.push(Violation::new(
                        "wrong-process-wrappers",
                        "",
                        format!("child {child} of job {job} (grouped={}, session={}) spawned with kill_on_drop={kill_on_drop} group={group} session={session}", plan.grouped, plan.session),
                    ));
                }
            }
        }
    }
    // nothing survives the shutdown
    let mut spawned: BTreeMap<u32, (u8, bool)> = BTreeMap::new(); // child -> (job, kill_on_drop)
    let mut dead: BTreeSet<u32> = BTreeSet::new();
    let mut dropped_unreaped_no_kod: Vec<u32> = Vec::new();
    for r in &out.hist {
        match &r.ev {
            Ev::Spawn { job, child, kill_on_drop, .. } => {
                spawned.insert(*child, (*job, *kill_on_drop));
            }
            Ev::Exit { child, .. } => {
                dead.insert(*child);
            }
            Ev::Dropped { child, reaped, .. } => {
                if !*reaped && !spawned.get(child).map(|s| s.1).unwrap_or(true) {
                    dropped_unreaped_no_kod.push(*child);
                }
            }
            _ => {}
        }
    }
    for (c, (job, _)) in &spawned {
        if !dead.contains(c) {
            vs.push(Violation::new("process-survives-shutdown", manner, format!("child {c} of job {job} was still alive after main ended and the runtime was shut down")));
        }
    }
    // ... and nothing outlives the main task itself: however main ends (quit, critical error), the job tasks are aborted or
    // joined by then and their processes killed (kill-on-drop), not merely left to the runtime's own shutdown
    if let Some((mt, _, _, _)) = &d.main_end {
        for (k, c) in ed.children.iter().enumerate() {
            if c.spawn_seq > 0 && c.spawn_t <= *mt && c.exit.map(|e| e.0 > *mt).unwrap_or(true) {
                vs.push(Violation::new("process-outlives-main", manner, format!("child {k} was still alive when main ended at t={mt} (exit: {:?})", c.exit)));
            }
        }
    }
    // what `list_jobs()` showed each invocation of the handler: every job created by an earlier invocation that nothing
    // ever deletes (the worker holds its handle: it cannot die), and nothing that was never created
    for r in &out.hist {
        if let Ev::Note { what: "listed-jobs", a, b } = &r.ev {
            let n = *b as u32;
            let earlier: Vec<&e2::JobPlan> = scn.jobs.iter().filter(|j| j.at_batch < n).collect();
            let mut ids = BTreeSet::new();
            let mut immortal = BTreeSet::new();
            for (k, j) in earlier.iter().enumerate() {
                let key = j.fixed_id.map(|f| 10_000 + f as usize).unwrap_or(k);
                ids.insert(key);
                let deleted = j.ops.iter().chain(j.later.iter().map(|l| &l.1)).any(|o| matches!(o, Op::Delete | Op::DeleteNow));
                if !deleted && j.fixed_id.is_none() {
                    immortal.insert(key);
                }
            }
            stats.hit("probe:list-jobs-judged");
            if (*a as usize) < immortal.len() || (*a as usize) > ids.len() {
                vs.push(Violation::new(
                    "wrong-job-list",
                    "",
                    format!("action {n}: list_jobs() showed {a} job(s); {} were created by earlier actions, {} of them can never have ended", ids.len(), immortal.len()),
                ));
            }
        }
    }
    // after a graceful quit of a grouped command every member of the group is dead (a quit cut short by a critical error
    // is an abort: kill-on-drop reaches the leader only)
    if qp.graceful.is_some() && !escalated {
        for r in &out.hist {
            if let Ev::Note { what: "group-members-alive", a, b } = &r.ev {
                stats.hit("probe:grouped-command-with-grandchildren");
                // only children that were alive (spawned, not yet ended) when the quit was requested are the quit's business
                let c = &ed.children[*a as usize];
                // (a leader that ended by itself before or at the quit instant leaves its orphans beyond the supervisor's reach)
                let alive_at_q = c.spawn_t <= q.0 && c.exit.map(|e| e.0 > q.0).unwrap_or(true);
                // a leader that ends by itself (before the stop signal goes out, or inside the grace period while
                // the other members ignore the signal) leaves orphans nobody force-kills; everything else must be gone
                let natural = c.exit.map(|e| e.1 < 1000).unwrap_or(false);
                if *b > 0 && alive_at_q && natural {
                    stats.hit("probe:group-members-orphaned-by-leader-exit");
                    continue;
                }
                if *b > 0 && alive_at_q {
                    vs.push(Violation::new("group-members-survive-graceful-quit", "", format!("{b} other member(s) of child {a}'s process group were still alive after the graceful quit")));
                }
            }
        }
    }
    vs
}

// C08 = library-level quit scenarios (E2) + the CLI's interrupt / terminate path (E3)
#[derive(Clone, Debug, serde::Serialize, serde::Deserialize, PartialEq, Eq, Hash)]
pub enum C08Scn {
    Lib(E2Scn),
    Cli(crate::e3::E3Scn),
}

pub struct C08;

impl Check for C08 {
    type Scn = C08Scn;
    fn property(&self) -> &'static str {
        "C08"
    }
    fn engine(&self) -> &'static str {
        "E2-wxsim + E3-clisim"
    }
    fn budget(&self, tier: Tier) -> u64 {
        match tier {
            Tier::Quick => 200_000,
            Tier::Thorough => 40_000_000,
        }
    }
    fn generate(&self, rng: &mut Rng, idx: u64, _tier: Tier) -> Option<C08Scn> {
        Some(if idx % 5 == 4 {
            let mapped = idx % 20 == 14;
            let mut s = if idx % 10 == 9 {
                crate::p_e3::gen_cli_race(rng)
            } else if mapped {
                crate::p_e3::gen_cli_mapped(rng)
            } else if idx % 100 == 24 {
                crate::p_e3::gen_cli_storm(rng)
            } else if idx % 20 == 4 {
                crate::p_e3::gen_cli_grouped(rng)
            } else {
                crate::p_e3::gen_cli(rng)
            };
            // vary the instant of the final signal: sometimes right in the middle of the action
            if !mapped && rng.chance(1, 2) {
                s.family = "cli-quit-early".into();
            }
            C08Scn::Cli(s)
        } else {
            C08Scn::Lib(gen_quit(rng))
        })
    }
    fn execute(&self, scn: &C08Scn, policy: Policy, sched_seed: u64) -> RunOut {
        match scn {
            C08Scn::Lib(s) => e2::execute(s, policy, sched_seed),
            C08Scn::Cli(s) => crate::e3::execute(s, policy, sched_seed),
        }
    }
    fn check(&self, scn: &C08Scn, out: &RunOut, stats: &mut Stats) -> Vec<Violation> {
        match scn {
            C08Scn::Lib(s) => {
                let d = digest2(out);
                e2_stats(s, &d, stats);
                oracle_c08(s, &d, out, stats)
            }
            C08Scn::Cli(s) => {
                let d = crate::p_e3::digest3(out);
                crate::p_e3::oracle_cli_quit(s, &d, out, stats)
            }
        }
    }
    fn shrink(&self, scn: &C08Scn) -> Vec<C08Scn> {
        match scn {
            C08Scn::Lib(s) => shrink_e2(s).into_iter().map(C08Scn::Lib).collect(),
            C08Scn::Cli(s) => crate::p_e3::shrink_e3(s).into_iter().map(C08Scn::Cli).collect(),
        }
    }
    fn nontrivial(&self, _scn: &C08Scn, out: &RunOut) -> bool {
        out.hist.iter().any(|r| matches!(r.ev, Ev::Spawn { .. })) && out.hist.iter().any(|r| matches!(r.ev, Ev::MainEnd { .. }))
    }
    fn rule(&self) -> String {
        "library level (4 of 5 runs): 0-3 jobs created by the action handler in states {never started, running, finished, mid graceful stop/restart with an armed timer, deleted but not collected, queued time-consuming controls, controls still arriving from a task holding a handle clone}, child reacting to the signal at once / late / never, with or without other process-group members, quit manner abort or graceful (signal, grace 0..10 s) requested at batch 0-2 incl. the action that created the job; CLI level (1 of 5): the real CLI handler under a generated argv, ended by SIGINT or SIGTERM through the signal source. Seeded PRNG and scheduling policy. distinct = distinct hash of the recorded history; non-trivial = at least one process was spawned and main ended".into()
    }
    fn required_probes(&self, _tier: Tier) -> Vec<&'static str> {
        vec![
            "probe:graceful-quit",
            "probe:abort-quit",
            "probe:quit-in-the-action-that-created-the-job",
            "probe:handle-clone-held-elsewhere",
            "probe:quit-with-never-started-job",
            "probe:quit-with-running-job",
            "probe:quit-with-finished-job",
            "probe:quit-with-armed-timer",
            "probe:quit-with-pending-async-control",
            "probe:quit-with-deleted-job",
            "probe:grouped-command-with-grandchildren",
            "probe:list-jobs-judged",
            "probe:critical-error-while-quitting",
            "probe:cli-grouped-command-with-grandchildren",
            "probe:cli-ungrouped-command-with-grandchildren",
            "probe:cli-quit",
            "probe:cli-quit-with-running-command",
            "probe:cli-quit-during-graceful-restart",
        ]
    }
    fn components(&self) -> Value {
        let mut c = e2_components();
        c["cli"] = crate::p_e3::e3_components();
        c
    }
    fn assumptions(&self) -> Vec<String> {
        let mut a = e2_assumptions();
        a.push("process-group semantics are modelled: a group-directed signal or kill reaches the other members only when the ProcessGroup / ProcessSession wrapper is present on the spawned command; kill-on-drop kills the leader only; a leader that ends by itself leaves orphans nobody force-kills".into());
        a
    }
}
