//! E2 "wxsim": the real `Watchexec` runtime (action worker + throttle_collect, fs / signal /
//! keyboard sources, error hook, Config / Changeable / ConfigWatched, LateJoinSet, jobs) driven by
//! simulated producers, handlers, a SimFilterer and a SimWatcher (hook H3).

use std::cell::RefCell;
use std::collections::HashMap;
use std::path::{Path, PathBuf};
use std::sync::Arc;
use std::time::Duration;

use serde::{Deserialize, Serialize};
use tokio::sync::mpsc;
use watchexec::{
    action::ActionHandler,
    error::{CriticalError, RuntimeError},
    filter::Filterer,
    sources::fs::Watcher as WatcherKind,
    Config, ErrorHook, WatchedPath, Watchexec,
};
use watchexec_events::{Event, Keyboard, Priority, Tag};
use watchexec_signals::Signal;

use crate::child::{finalize_world, sim_command, ChildSpec};
use crate::ctx::{log, run_sim, sleep_ms, with_run, Ev, Policy, RunOut, SimOpts, HOUR_MS};
use crate::e1::{self, Op};

pub const FINAL_ID: u32 = 999_999;
pub const PROBE_ID: u32 = 888_888;
pub const SIGNAL_ID_BASE: u32 = 1_000_000;
pub const KEYBOARD_ID: u32 = 2_000_000;
pub const UNKNOWN_ID: u32 = 3_000_000;

// ------------------------------------------------------------------------------------------
// scenario

#[derive(Clone, Debug, Serialize, Deserialize, PartialEq, Eq, Hash)]
pub enum PKind {
    /// `Watchexec::send_event` with a synthetic event
    Send { id: u32, prio: u8, empty: bool },
    /// what the signal worker does for one OS signal (H4)
    Signal { sig: i32 },
    /// what the stdin watcher does on EOF (H4)
    KeyboardEof,
    /// the watcher backend calls the real event handler with Ok(event) for /sim/ev/<id>
    FsFire { id: u32 },
    /// the watcher backend calls the real event handler with Err(..)
    FsErr { tag: u32 },
    SetThrottle { ms: u64 },
    /// `Config::filterer()` with a new filterer (generation + 1), at run time
    ReplaceFilterer,
}

#[derive(Clone, Debug, Serialize, Deserialize, PartialEq, Eq, Hash)]
pub struct PStep {
    pub gap: u64,
    pub kind: PKind,
}

#[derive(Clone, Debug, Serialize, Deserialize, PartialEq, Eq, Hash)]
pub enum Change {
    /// (path id, recursive)
    Pathset(Vec<(u8, bool)>),
    /// None = Native, Some(ms) = Poll(ms)
    FileWatcher(Option<u64>),
    KeyboardOff,
    Throttle(u64),
    ReplaceActionHandler,
    ReplaceErrorHandler,
    ReplaceFilterer,
}

#[derive(Clone, Debug, Serialize, Deserialize, PartialEq, Eq, Hash)]
pub struct CfgStep {
    pub gap: u64,
    pub change: Change,
}

#[derive(Clone, Debug, Serialize, Deserialize, PartialEq, Eq, Hash)]
pub struct WFault {
    pub path: u8,
    /// true: on watch(); false: on unwatch()
    pub on_watch: bool,
    /// persistent: every attempt fails; one-shot: only the first
    pub persistent: bool,
}

#[derive(Clone, Debug, Default, Serialize, Deserialize, PartialEq, Eq, Hash)]
pub struct ErrPlan {
    /// the k-th error-handler call (0-based) elevates the error
    pub elevate_at: Option<u32>,
    /// the k-th call raises CriticalError::External
    pub critical_at: Option<u32>,
    /// the k-th call replaces the error handler (by an equivalent one)
    pub replace_at: Option<u32>,
    /// slow handler: after each call the error hook task is stalled for this many virtual ms
    #[serde(default)]
    pub slow_ms: u64,
    /// the k-th call keeps its ErrorHook alive (hands it to a "logger" that holds on to it for the rest of the run)
    /// instead of dropping it when the handler returns
    #[serde(default)]
    pub park_at: Option<u32>,
}

#[derive(Clone, Debug, Serialize, Deserialize, PartialEq, Eq, Hash)]
pub struct JobPlan {
    pub at_batch: u32,
    pub grouped: bool,
    pub session: bool,
    pub children: Vec<ChildSpec>,
    /// controls issued by the handler right after creating the job
    pub ops: Vec<Op>,
    /// controls issued by a holder task `gap` ms later (the holder keeps a Job clone for the whole run)
    pub later: Vec<(u64, Op)>,
    pub hold_clone: bool,
    /// Some(k): the job is obtained with get_or_create_job under the k-th fixed id of the scenario
    /// (so that a deleted job can be re-created under the same id); None: create_job with a fresh id
    #[serde(default)]
    pub fixed_id: Option<u8>,
}

#[derive(Clone, Debug, Serialize, Deserialize, PartialEq, Eq, Hash)]
pub struct QuitPlan {
    pub at_batch: u32,
    /// None = abort; Some((signal, grace ms)) = graceful
    pub graceful: Option<(i32, u64)>,
}

#[derive(Clone, Debug, Serialize, Deserialize, PartialEq, Eq, Hash)]
pub struct E2Scn {
    pub family: String,
    pub throttle: u64,
    pub event_cap: u32,
    pub error_cap: u32,
    pub handler_async: bool,
    pub handler_durs: Vec<u64>,
    pub producers: Vec<Vec<PStep>>,
    /// (id, verdict): 1 reject, 2 error; everything else passes
    pub verdicts: Vec<(u32, u8)>,
    pub err_plan: ErrPlan,
    pub init_paths: Vec<(u8, bool)>,
    pub init_poll: Option<u64>,
    pub cfg_steps: Vec<CfgStep>,
    pub watch_faults: Vec<WFault>,
    /// watcher creations (0-based) that fail
    pub create_fail: Vec<u32>,
    /// at the k-th watch/unwatch call (0-based, counted over the run) this change lands mid-apply
    pub mid_apply: Vec<(u32, Change)>,
    pub in_action: Vec<(u32, Change)>,
    pub in_error: Vec<(u32, Change)>,
    pub jobs: Vec<JobPlan>,
    pub quit: Option<QuitPlan>,
    /// send a liveness probe (a passing normal event) after everything else, before the final marker
    pub probe: bool,
    /// seed for the iteration order of the fs worker's registered-path set (hook H6)
    #[serde(default)]
    pub hash_seed: u64,
    /// slow filter: filtering event `id` stalls the action worker task for `ms`
    #[serde(default)]
    pub filter_slow: Vec<(u32, u64)>,
    /// slow watcher backend: the k-th watch/unwatch call stalls the fs worker task for `ms`
    #[serde(default)]
    pub watch_slow: Vec<(u32, u64)>,
    /// ids whose verdict depends on the filterer in place: rejected by generations 0, 2, .. and accepted by
    /// generations 1, 3, .. (each `ReplaceFilterer` installs the next generation)
    #[serde(default)]
    pub flip_ids: Vec<u32>,
    /// paths that a *poll* watcher cannot scan: as notify's PollWatcher does, watch() succeeds but reports an io error
    /// through the event handler, synchronously, from inside watch() - i.e. on the thread of the fs worker
    #[serde(default)]
    pub poll_scan_errors: Vec<u8>,
    /// Watchexec starts with the default filterer (everything passes); the scenario's filterer - with its verdicts -
    /// is only installed by the first `ReplaceFilterer`
    #[serde(default)]
    pub default_filterer_first: bool,
    /// run-time changes are made the "advanced" way the documentation of `Config::signal_change` describes: the public
    /// field is replaced (`config.pathset.replace(..)`, `config.file_watcher.replace(..)`, `config.throttle.replace(..)`,
    /// `config.keyboard_events.replace(..)`) and `config.signal_change()` is called by hand, instead of the setter
    #[serde(default)]
    pub raw_changes: bool,
    /// bare `config.signal_change()` calls (nothing changed) at these instants: every worker re-reads its configuration
    #[serde(default)]
    pub nudges: Vec<u64>,
}

impl Default for E2Scn {
    fn default() -> Self {
        Self {
            family: "".into(),
            throttle: 50,
            event_cap: 4096,
            error_cap: 64,
            handler_async: false,
            handler_durs: vec![0],
            producers: vec![],
            verdicts: vec![],
            err_plan: Default::default(),
            init_paths: vec![],
            init_poll: None,
            cfg_steps: vec![],
            watch_faults: vec![],
            create_fail: vec![],
            mid_apply: vec![],
            in_action: vec![],
            in_error: vec![],
            jobs: vec![],
            quit: None,
            probe: false,
            hash_seed: 0,
            filter_slow: vec![],
            watch_slow: vec![],
            flip_ids: vec![],
            poll_scan_errors: vec![],
            default_filterer_first: false,
            raw_changes: false,
            nudges: vec![],
        }
    }
}

impl E2Scn {
    pub fn verdict(&self, id: u32) -> u8 {
        self.verdicts.iter().find(|(i, _)| *i == id).map(|(_, v)| *v).unwrap_or(0)
    }
    /// verdict of the filterer of generation `gen` for event `id`
    pub fn verdict_gen(&self, id: u32, gen: u32) -> u8 {
        if self.flip_ids.contains(&id) {
            if gen % 2 == 1 {
                0
            } else {
                1
            }
        } else {
            self.verdict(id)
        }
    }
    pub fn max_handler(&self) -> u64 {
        self.handler_durs.iter().copied().max().unwrap_or(0)
    }
    pub fn throttles(&self) -> Vec<u64> {
        let mut v = vec![self.throttle];
        for p in &self.producers {
            for s in p {
                if let PKind::SetThrottle { ms } = s.kind {
                    v.push(ms);
                }
            }
        }
        for c in self.all_changes() {
            if let Change::Throttle(ms) = c {
                v.push(*ms);
            }
        }
        v
    }
    pub fn all_changes(&self) -> Vec<&Change> {
        let mut v: Vec<&Change> = self.cfg_steps.iter().map(|c| &c.change).collect();
        v.extend(self.mid_apply.iter().map(|c| &c.1));
        v.extend(self.in_action.iter().map(|c| &c.1));
        v.extend(self.in_error.iter().map(|c| &c.1));
        v
    }
}

// ------------------------------------------------------------------------------------------
// world

pub struct WatcherState {
    pub poll: bool,
    pub alive: bool,
    pub registered: Vec<(u8, bool)>,
    pub handler: Option<watchexec::verif::BoxedEventHandler>,
}

#[derive(Default)]
pub struct LibWorld {
    pub scn: Option<Arc<E2Scn>>,
    pub config: Option<Arc<Config>>,
    pub batch_no: u32,
    pub err_no: u32,
    pub cfg_no: u32,
    pub watcher_calls: u32,
    pub creations: u32,
    pub watchers: Vec<WatcherState>,
    pub oneshot_done: Vec<(u8, bool)>,
    pub action_gen: u32,
    pub filter_gen: u32,
    pub scan_err_no: u32,
    pub error_gen: u32,
    pub jobs_created: u32,
    pub holders: Vec<tokio::task::JoinHandle<()>>,
    pub in_handler: bool,
    pub main_ended: bool,
    pub fixed_ids: Vec<watchexec::Id>,
}

fn lib<R>(f: impl FnOnce(&mut LibWorld) -> R) -> R {
    with_run(|r| f(&mut r.lib))
}

pub fn path_of(id: u8) -> PathBuf {
    PathBuf::from(format!("/sim/p{id}"))
}
pub fn path_id(p: &Path) -> u8 {
    p.to_str().and_then(|s| s.strip_prefix("/sim/p")).and_then(|s| s.parse().ok()).unwrap_or(255)
}

pub fn event_id(ev: &Event) -> u32 {
    if let Some(v) = ev.metadata.get("sim-id").and_then(|v| v.first()) {
        return v.parse().unwrap_or(UNKNOWN_ID);
    }
    for t in &ev.tags {
        match t {
            Tag::Path { path, .. } => {
                if let Some(n) = path.to_str().and_then(|s| s.strip_prefix("/sim/ev/")).and_then(|s| s.parse::<u32>().ok()) {
                    return n;
                }
            }
            Tag::Signal(s) => {
                let n = s.to_nix().map(|n| n as i32).unwrap_or(0);
                return SIGNAL_ID_BASE + n as u32;
            }
            Tag::Keyboard(Keyboard::Eof) => return KEYBOARD_ID,
            _ => {}
        }
    }
    if ev.tags.is_empty() {
        return 0;
    }
    UNKNOWN_ID
}

pub fn make_event(id: u32, empty: bool) -> Event {
    let mut metadata = HashMap::new();
    metadata.insert("sim-id".to_string(), vec![id.to_string()]);
    let tags = if empty { vec![] } else { vec![Tag::Source(watchexec_events::Source::Internal)] };
    Event { tags, metadata }
}

/// u64::MAX stands for Duration::MAX: "never act on anything but urgent events"
pub fn throttle_of(ms: u64) -> Duration {
    if ms == u64::MAX {
        Duration::MAX
    } else {
        Duration::from_millis(ms)
    }
}

pub fn prio_of(p: u8) -> Priority {
    match p {
        0 => Priority::Low,
        1 => Priority::Normal,
        2 => Priority::High,
        _ => Priority::Urgent,
    }
}

// ---- filterer

#[derive(Debug)]
pub struct SimFilterer {
    /// which filterer this is: 0 = the one installed at start-up, n = after n replacements
    pub gen: u32,
}

impl Filterer for SimFilterer {
    fn check_event(&self, event: &Event, _priority: Priority) -> Result<bool, RuntimeError> {
        let id = event_id(event);
        let gen = self.gen;
        let (verdict, slow) = lib(|l| {
            let s = l.scn.as_ref();
            (s.map(|s| s.verdict_gen(id, gen)).unwrap_or(0), s.and_then(|s| s.filter_slow.iter().find(|f| f.0 == id).map(|f| f.1)).unwrap_or(0))
        });
        log(Ev::Filter { id, verdict });
        crate::ctx::stall_current_task(slow);
        match verdict {
            1 => Ok(false),
            2 => Err(RuntimeError::External(format!("sim-filter-error-{id}").into())),
            _ => Ok(true),
        }
    }
}

// ---- watcher

pub struct SimWatcher {
    w: u32,
}

fn apply_change(c: &Change) {
    let config = lib(|l| l.config.clone());
    let Some(config) = config else { return };
    let n = lib(|l| {
        l.cfg_no += 1;
        l.cfg_no - 1
    });
    log(Ev::CfgChange { n, what: format!("{c:?}") });
    let raw = lib(|l| l.scn.as_ref().map(|s| s.raw_changes).unwrap_or(false));
    match c {
        Change::Pathset(ps) => {
            let v: Vec<WatchedPath> = ps.iter().map(|(p, rec)| if *rec { WatchedPath::recursive(path_of(*p)) } else { WatchedPath::non_recursive(path_of(*p)) }).collect();
            if raw {
                config.pathset.replace(v);
                config.signal_change();
            } else {
                config.pathset(v);
            }
        }
        Change::FileWatcher(kind) => {
            let k = match kind {
                None => WatcherKind::Native,
                Some(ms) => WatcherKind::Poll(Duration::from_millis(*ms)),
            };
            if raw {
                config.file_watcher.replace(k);
                config.signal_change();
            } else {
                config.file_watcher(k);
            }
        }
        Change::KeyboardOff => {
            if raw {
                config.keyboard_events.replace(false);
                config.signal_change();
            } else {
                config.keyboard_events(false);
            }
        }
        Change::Throttle(ms) => {
            if raw {
                config.throttle.replace(throttle_of(*ms));
                config.signal_change();
            } else {
                config.throttle(throttle_of(*ms));
            }
        }
        Change::ReplaceActionHandler => {
            let g = lib(|l| {
                l.action_gen += 1;
                l.action_gen
            });
            install_action_handler(&config, g);
        }
        Change::ReplaceErrorHandler => {
            let g = lib(|l| {
                l.error_gen += 1;
                l.error_gen
            });
            install_error_handler(&config, g);
        }
        Change::ReplaceFilterer => {
            let g = lib(|l| {
                l.filter_gen += 1;
                l.filter_gen
            });
            config.filterer(SimFilterer { gen: g });
        }
    }
}

impl SimWatcher {
    fn call(&mut self, what: &'static str, path: &Path, rec: bool) -> notify::Result<()> {
        let p = path_id(path);
        let on_watch = what == "watch";
        let (k, fail, mid) = lib(|l| {
            let k = l.watcher_calls;
            l.watcher_calls += 1;
            let scn = l.scn.clone().unwrap();
            let mut fail = false;
            for f in &scn.watch_faults {
                if f.path == p && f.on_watch == on_watch {
                    if f.persistent {
                        fail = true;
                    } else if !l.oneshot_done.contains(&(p, on_watch)) {
                        l.oneshot_done.push((p, on_watch));
                        fail = true;
                    }
                }
            }
            let mid: Vec<Change> = scn.mid_apply.iter().filter(|(at, _)| *at == k).map(|(_, c)| c.clone()).collect();
            (k, fail, mid)
        });
        let slow = lib(|l| l.scn.as_ref().and_then(|s| s.watch_slow.iter().find(|w| w.0 == k).map(|w| w.1)).unwrap_or(0));
        crate::ctx::stall_current_task(slow);
        // a "concurrent thread" changes the configuration in the middle of the apply
        for c in &mid {
            log(Ev::Note { what: "mid-apply-change", a: k as i64, b: 0 });
            apply_change(c);
        }
        let w = self.w;
        if fail {
            log(Ev::Watcher { w, what, path: p, rec, ok: false });
            return Err(notify::Error::generic(&format!("sim-{what}-fails-p{p}")));
        }
        lib(|l| {
            let st = &mut l.watchers[w as usize];
            if on_watch {
                st.registered.retain(|(q, _)| *q != p);
                st.registered.push((p, rec));
            } else {
                st.registered.retain(|(q, _)| *q != p);
            }
        });
        log(Ev::Watcher { w, what, path: p, rec, ok: true });
        let scan_error = on_watch && lib(|l| l.watchers[w as usize].poll && l.scn.as_ref().map(|s| s.poll_scan_errors.contains(&p)).unwrap_or(false));
        if scan_error {
            // (one tag per occurrence: the same path may be scanned again by a later watcher)
            let tag = lib(|l| {
                l.scan_err_no += 1;
                9000 + l.scan_err_no * 10 + p as u32
            });
            let fired = fire(Err(notify::Error::generic(&format!("sim-callback-error-{tag}"))));
            log(Ev::Note { what: "fs-callback-error", a: tag as i64, b: fired as i64 });
            log(Ev::Note { what: "poll-scan-error-inside-watch", a: p as i64, b: 0 });
        }
        Ok(())
    }
}

impl notify::Watcher for SimWatcher {
    fn new<F: notify::EventHandler>(_event_handler: F, _config: notify::Config) -> notify::Result<Self> {
        unreachable!("SimWatcher is built by the factory")
    }
    fn watch(&mut self, path: &Path, mode: notify::RecursiveMode) -> notify::Result<()> {
        self.call("watch", path, matches!(mode, notify::RecursiveMode::Recursive))
    }
    fn unwatch(&mut self, path: &Path) -> notify::Result<()> {
        self.call("unwatch", path, false)
    }
    fn kind() -> notify::WatcherKind {
        notify::WatcherKind::NullWatcher
    }
}

impl Drop for SimWatcher {
    fn drop(&mut self) {
        let installed = crate::ctx::RUN.with(|r| r.try_borrow().map(|r| r.is_some()).unwrap_or(false));
        if !installed {
            return;
        }
        let w = self.w;
        lib(|l| {
            l.watchers[w as usize].alive = false;
            l.watchers[w as usize].handler = None;
        });
        log(Ev::WatcherDrop { w });
    }
}

pub fn install_watcher_factory() {
    watchexec::verif::set_watcher_factory(Some(Box::new(|kind, handler| {
        let poll = matches!(kind, WatcherKind::Poll(_));
        let poll_ms = match kind {
            WatcherKind::Poll(d) => d.as_millis() as i64,
            _ => -1,
        };
        let (w, fail) = lib(|l| {
            let c = l.creations;
            l.creations += 1;
            let fail = l.scn.as_ref().map(|s| s.create_fail.contains(&c)).unwrap_or(false);
            let w = l.watchers.len() as u32;
            if !fail {
                l.watchers.push(WatcherState { poll, alive: true, registered: vec![], handler: Some(handler) });
            }
            (w, fail)
        });
        log(Ev::WatcherNew { w, poll_ms, ok: !fail });
        if fail {
            return Err(CriticalError::FsWatcherInit { kind, err: watchexec::error::FsWatcherError::Create(notify::Error::generic("sim-create-fails")) });
        }
        Ok(Box::new(SimWatcher { w }) as Box<dyn notify::Watcher + Send>)
    })));
}

/// the watcher backend's thread delivers something to the real handler closure of the live watcher
fn fire(ev: Result<notify::Event, notify::Error>) -> bool {
    // take the handler out while calling it (it logs through the same thread-local)
    let slot = lib(|l| {
        let w = l.watchers.iter().rposition(|w| w.alive && w.handler.is_some())?;
        l.watchers[w].handler.take().map(|h| (w, h))
    });
    let Some((w, mut h)) = slot else { return false };
    h(ev);
    lib(|l| {
        if l.watchers[w].alive {
            l.watchers[w].handler = Some(h);
        }
    });
    true
}

// ---- handlers

fn on_batch(mut action: ActionHandler) -> (ActionHandler, u64, u32) {
    let ids: Vec<u32> = action.events.iter().map(event_id).collect();
    let (n, scn) = lib(|l| {
        let n = l.batch_no;
        l.batch_no += 1;
        l.in_handler = true;
        (n, l.scn.clone().unwrap())
    });
    log(Ev::Batch { n, ids: ids.clone(), urgent: false });
    for (at, c) in &scn.in_action {
        if *at == n {
            apply_change(c);
        }
    }
    // what the handler is shown: the jobs Watchexec supervises as of this invocation
    log(Ev::Note { what: "listed-jobs", a: action.list_jobs().count() as i64, b: n as i64 });
    for (ji, plan) in scn.jobs.iter().enumerate() {
        if plan.at_batch == n {
            let jobno = ji as u8;
            with_run(|r| {
                r.world.ensure_job(ji);
                r.world.specs[ji] = if plan.children.is_empty() { vec![ChildSpec::default()] } else { plan.children.clone() };
            });
            let job = match plan.fixed_id {
                None => action.create_job(sim_command(jobno, plan.grouped, plan.session)).1,
                Some(k) => {
                    let id = lib(|l| {
                        while l.fixed_ids.len() <= k as usize {
                            l.fixed_ids.push(watchexec::Id::default());
                        }
                        l.fixed_ids[k as usize]
                    });
                    let (grouped, session) = (plan.grouped, plan.session);
                    action.get_or_create_job(id, move || sim_command(jobno, grouped, session))
                }
            };
            lib(|l| l.jobs_created += 1);
            for (oi, op) in plan.ops.iter().enumerate() {
                let opid = (ji * 1000 + oi) as u32;
                log(Ev::CtlSend { job: jobno, sender: 0, op: opid, what: op.name() });
                let _ = e1::issue(&job, op, opid, jobno);
            }
            if plan.hold_clone || !plan.later.is_empty() {
                let later = plan.later.clone();
                let h = tokio::spawn(async move {
                    for (oi, (gap, op)) in later.iter().enumerate() {
                        sleep_ms(*gap).await;
                        let opid = (ji * 1000 + 500 + oi) as u32;
                        log(Ev::CtlSend { job: jobno, sender: 1, op: opid, what: op.name() });
                        let _ = e1::issue(&job, op, opid, jobno);
                    }
                    // keeps its Job clone alive for the whole run
                    sleep_ms(10 * HOUR_MS).await;
                    drop(job);
                });
                lib(|l| l.holders.push(h));
            }
        }
    }
    let mut quit = false;
    if let Some(q) = &scn.quit {
        if q.at_batch == n {
            quit = true;
            match q.graceful {
                None => {
                    log(Ev::QuitReq { manner: "abort", grace: 0 });
                    action.quit();
                }
                Some((sig, grace)) => {
                    log(Ev::QuitReq { manner: "graceful", grace });
                    // (u64::MAX stands for Duration::MAX)
                    action.quit_gracefully(Signal::from(sig), if grace == u64::MAX { Duration::MAX } else { Duration::from_millis(grace) });
                }
            }
        }
    }
    if !quit && ids.contains(&FINAL_ID) {
        log(Ev::QuitReq { manner: "final", grace: 0 });
        action.quit();
    }
    let dur = if scn.handler_durs.is_empty() { 0 } else { scn.handler_durs[n as usize % scn.handler_durs.len()] };
    (action, dur, n)
}

fn batch_end(n: u32) {
    lib(|l| l.in_handler = false);
    log(Ev::BatchEnd { n });
}

fn install_action_handler(config: &Config, generation: u32) {
    let is_async = lib(|l| l.scn.as_ref().map(|s| s.handler_async).unwrap_or(false));
    if is_async {
        config.on_action_async(move |action| {
            let (action, dur, n) = on_batch(action);
            note_generation("action-handler-generation", generation);
            Box::new(async move {
                if dur > 0 {
                    sleep_ms(dur).await;
                }
                batch_end(n);
                action
            })
        });
    } else {
        config.on_action(move |action| {
            let (action, _dur, n) = on_batch(action);
            note_generation("action-handler-generation", generation);
            batch_end(n);
            action
        });
    }
}

fn note_generation(what: &'static str, generation: u32) {
    log(Ev::Note { what, a: generation as i64, b: 0 });
}

thread_local! {
    /// error hooks a handler decided to keep (released when the next run starts)
    static PARKED_HOOKS: RefCell<Vec<ErrorHook>> = const { RefCell::new(Vec::new()) };
}

fn install_error_handler(config: &Config, generation: u32) {
    config.on_error(move |hook: ErrorHook| {
        let (n, scn) = lib(|l| {
            let n = l.err_no;
            l.err_no += 1;
            (n, l.scn.clone().unwrap())
        });
        let mut msg = format!("{} | {:?}", hook.error, hook.error);
        msg.truncate(300);
        log(Ev::RtErr { n, msg });
        note_generation("error-handler-generation", generation);
        for (at, c) in &scn.in_error {
            if *at == n {
                apply_change(c);
            }
        }
        if scn.err_plan.replace_at == Some(n) {
            apply_change(&Change::ReplaceErrorHandler);
            log(Ev::ErrAction { n, what: "replace" });
        }
        crate::ctx::stall_current_task(scn.err_plan.slow_ms);
        if scn.err_plan.park_at == Some(n) && scn.err_plan.elevate_at != Some(n) && scn.err_plan.critical_at != Some(n) {
            log(Ev::ErrAction { n, what: "park" });
            PARKED_HOOKS.with(|p| p.borrow_mut().push(hook));
            return;
        }
        if scn.err_plan.elevate_at == Some(n) {
            log(Ev::ErrAction { n, what: "elevate" });
            hook.elevate();
        } else if scn.err_plan.critical_at == Some(n) {
            log(Ev::ErrAction { n, what: "critical" });
            hook.critical(CriticalError::External("sim-critical".into()));
        }
    });
}

// ---- producers

async fn producer(pi: usize, steps: Vec<PStep>, wx: Arc<Watchexec>) {
    let (dummy_tx, mut dummy_rx) = mpsc::channel::<RuntimeError>(8);
    for st in steps {
        if st.gap > 0 {
            sleep_ms(st.gap).await;
        }
        match st.kind {
            PKind::Send { id, prio, empty } => {
                log(Ev::EvSend { id, prio, src: pi as u8 });
                let r = tokio::time::timeout(Duration::from_millis(HOUR_MS), wx.send_event(make_event(id, empty), prio_of(prio))).await;
                match r {
                    Ok(r) => log(Ev::EvSent { id, ok: r.is_ok() }),
                    Err(_) => log(Ev::Note { what: "send-hung", a: id as i64, b: 0 }),
                }
            }
            PKind::Signal { sig } => {
                let s = Signal::from(sig);
                let id = SIGNAL_ID_BASE + sig as u32;
                let prio = match s {
                    Signal::Interrupt | Signal::Terminate => 3,
                    _ => 2,
                };
                log(Ev::EvSend { id, prio, src: 100 });
                let r = tokio::time::timeout(Duration::from_millis(HOUR_MS), watchexec::verif::signal_send_event(dummy_tx.clone(), wx.verif_event_input(), s)).await;
                let failed = dummy_rx.try_recv().is_ok();
                match r {
                    Ok(r) => log(Ev::EvSent { id, ok: r.is_ok() && !failed }),
                    Err(_) => log(Ev::Note { what: "send-hung", a: id as i64, b: 0 }),
                }
            }
            PKind::KeyboardEof => {
                log(Ev::EvSend { id: KEYBOARD_ID, prio: 1, src: 101 });
                let r = tokio::time::timeout(
                    Duration::from_millis(HOUR_MS),
                    watchexec::verif::keyboard_send_event(dummy_tx.clone(), wx.verif_event_input(), Keyboard::Eof),
                )
                .await;
                let failed = dummy_rx.try_recv().is_ok();
                match r {
                    Ok(r) => log(Ev::EvSent { id: KEYBOARD_ID, ok: r.is_ok() && !failed }),
                    Err(_) => log(Ev::Note { what: "send-hung", a: KEYBOARD_ID as i64, b: 0 }),
                }
            }
            PKind::FsFire { id } => {
                let input = wx.verif_event_input();
                let room = !input.is_full() && !input.is_closed();
                // the shapes a notify back-end produces: every kind, one or two paths, the "rescan" flag (the
                // back-end's own queue overflowed), tracker / info attributes - a pure function of the event id
                use notify::event::{CreateKind, Flag, ModifyKind, RemoveKind, RenameMode};
                let kind = match id % 6 {
                    0 => notify::EventKind::Modify(ModifyKind::Any),
                    1 => notify::EventKind::Create(CreateKind::File),
                    2 => notify::EventKind::Remove(RemoveKind::Any),
                    3 => notify::EventKind::Modify(ModifyKind::Name(RenameMode::Both)),
                    4 => notify::EventKind::Other,
                    _ => notify::EventKind::Modify(ModifyKind::Metadata(notify::event::MetadataKind::Any)),
                };
                let mut ev = notify::Event::new(kind).add_path(PathBuf::from(format!("/sim/ev/{id}")));
                if id % 6 == 3 {
                    ev = ev.add_path(PathBuf::from(format!("/sim/ev/{id}.renamed")));
                }
                if id % 7 == 3 {
                    ev = ev.set_flag(Flag::Rescan);
                }
                if id % 5 == 2 {
                    ev = ev.set_tracker(id as usize).set_info("sim");
                }
                log(Ev::EvSend { id, prio: 1, src: 102 });
                let fired = fire(Ok(ev));
                if fired {
                    log(Ev::EvTrySend { id, ok: room });
                } else {
                    log(Ev::Note { what: "fs-fire-without-watcher", a: id as i64, b: 0 });
                }
            }
            PKind::FsErr { tag } => {
                let fired = fire(Err(notify::Error::generic(&format!("sim-callback-error-{tag}"))));
                log(Ev::Note { what: "fs-callback-error", a: tag as i64, b: fired as i64 });
            }
            PKind::SetThrottle { ms } => apply_change(&Change::Throttle(ms)),
            PKind::ReplaceFilterer => apply_change(&Change::ReplaceFilterer),
        }
    }
}

async fn e2_root(scn: E2Scn) {
    e1::reset_counters();
    PARKED_HOOKS.with(|p| p.borrow_mut().clear());
    let scn = Arc::new(scn);
    lib(|l| {
        *l = LibWorld::default();
        l.scn = Some(scn.clone());
    });
    let mut config = Config::default();
    config.event_channel_size = scn.event_cap as usize;
    config.error_channel_size = scn.error_cap as usize;
    config.throttle(throttle_of(scn.throttle));
    if !scn.default_filterer_first {
        config.filterer(SimFilterer { gen: 0 });
    }
    install_action_handler(&config, 0);
    install_error_handler(&config, 0);
    if let Some(ms) = scn.init_poll {
        config.file_watcher(WatcherKind::Poll(Duration::from_millis(ms)));
    }
    if !scn.init_paths.is_empty() {
        let v: Vec<WatchedPath> =
            scn.init_paths.iter().map(|(p, rec)| if *rec { WatchedPath::recursive(path_of(*p)) } else { WatchedPath::non_recursive(path_of(*p)) }).collect();
        config.pathset(v);
    }
    let wx = match Watchexec::with_config(config) {
        Ok(wx) => Arc::new(wx),
        Err(e) => {
            log(Ev::MainEnd { ok: false, msg: format!("with_config: {e}") });
            return;
        }
    };
    lib(|l| l.config = Some(wx.config.clone()));
    let main = wx.main();
    let monitor = tokio::spawn(async move {
        let r = main.await;
        lib(|l| l.main_ended = true);
        match r {
            Ok(Ok(())) => log(Ev::MainEnd { ok: true, msg: String::new() }),
            Ok(Err(e)) => {
                let mut msg = format!("{e} | {e:?}");
                msg.truncate(300);
                log(Ev::MainEnd { ok: false, msg })
            }
            Err(e) => log(Ev::MainEnd { ok: false, msg: format!("join error: {e}") }),
        }
    });
    // let the workers start (fs worker's first apply etc.) before anything is sent, as main() callers do
    tokio::task::yield_now().await;

    let mut tasks = Vec::new();
    for (pi, steps) in scn.producers.iter().enumerate() {
        tasks.push(tokio::spawn(producer(pi, steps.clone(), wx.clone())));
    }
    if !scn.cfg_steps.is_empty() {
        let steps = scn.cfg_steps.clone();
        tasks.push(tokio::spawn(async move {
            for st in steps {
                if st.gap > 0 {
                    sleep_ms(st.gap).await;
                }
                apply_change(&st.change);
            }
        }));
    }
    if !scn.nudges.is_empty() {
        let mut at = scn.nudges.clone();
        at.sort();
        tasks.push(tokio::spawn(async move {
            let mut now = 0;
            for t in at {
                if t > now {
                    sleep_ms(t - now).await;
                    now = t;
                }
                let config = lib(|l| l.config.clone());
                if let Some(config) = config {
                    let n = lib(|l| {
                        l.cfg_no += 1;
                        l.cfg_no - 1
                    });
                    log(Ev::CfgChange { n, what: "Nudge".into() });
                    config.signal_change();
                }
            }
        }));
    }
    for t in tasks {
        if let Err(e) = t.await {
            if e.is_panic() {
                // a producer stands for a thread of the outside world (notify's, the signal handler's, a caller's): the
                // code it called into panicked
                log(Ev::Note { what: "producer-panicked", a: 0, b: 0 });
            }
        }
    }
    log(Ev::Note { what: "producers-done", a: 0, b: 0 });
    // quiescent stretch: longer than any window plus any handler
    let quiet = scn.throttles().iter().copied().filter(|t| *t != u64::MAX).max().unwrap_or(0) + 2 * scn.max_handler() + 1000;
    settle(quiet).await;
    if scn.probe && !monitor.is_finished() {
        log(Ev::EvSend { id: PROBE_ID, prio: 1, src: 200 });
        let r = tokio::time::timeout(Duration::from_millis(HOUR_MS), wx.send_event(make_event(PROBE_ID, false), Priority::Normal)).await;
        log(Ev::EvSent { id: PROBE_ID, ok: matches!(r, Ok(Ok(()))) });
        settle(quiet).await;
    }
    // a long idle stretch (virtual time is free): nothing may happen in it
    if !monitor.is_finished() {
        sleep_ms(HOUR_MS).await;
    }
    log(Ev::Note { what: "quiescent", a: 0, b: 0 });
    // final marker: urgent, makes the handler quit (abort) unless the scenario has quit already
    if !monitor.is_finished() {
        log(Ev::EvSend { id: FINAL_ID, prio: 3, src: 201 });
        let r = tokio::time::timeout(Duration::from_millis(HOUR_MS), wx.send_event(make_event(FINAL_ID, false), Priority::Urgent)).await;
        log(Ev::EvSent { id: FINAL_ID, ok: matches!(r, Ok(Ok(()))) });
    }
    let ended = tokio::time::timeout(Duration::from_millis(HOUR_MS), monitor).await;
    if ended.is_err() {
        log(Ev::Note { what: "main-never-ended", a: 0, b: 0 });
    }
    finalize_world();
    log(Ev::Note { what: "scenario-over", a: 0, b: 0 });
    let holders = lib(|l| std::mem::take(&mut l.holders));
    for h in holders {
        h.abort();
    }
    lib(|l| {
        l.config = None;
    });
    drop(wx);
}

/// wait until the action worker has been idle (no batch delivered, no handler running) for `quiet` ms
async fn settle(quiet: u64) {
    for _ in 0..500 {
        let before = with_run(|r| r.seq);
        sleep_ms(quiet).await;
        let (after, busy) = (with_run(|r| r.seq), lib(|l| l.in_handler));
        // nothing at all was recorded for a whole stretch and no handler is running (or main is over)
        if after == before && (!busy || lib(|l| l.main_ended)) {
            return;
        }
    }
    log(Ev::Note { what: "never-settled", a: 0, b: 0 });
}

pub fn execute(scn: &E2Scn, policy: Policy, sched_seed: u64) -> RunOut {
    crate::child::install_interposer();
    install_watcher_factory();
    let scn = scn.clone();
    watchexec::verif::set_hash_seed(scn.hash_seed);
    // anything the code under test hands to the blocking pool takes 0 - 400 virtual ms (dormant on the current tree,
    // which does not use the pool on these paths)
    tokio::runtime::sim::set_blocking_latencies(Some(vec![0, 0, 1, 30, 400]));
    let out = run_sim(policy, sched_seed, SimOpts { enable_io: true }, move || e2_root(scn));
    tokio::runtime::sim::set_blocking_latencies(None);
    out
}
