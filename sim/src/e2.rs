//! E2 "wxsim": library level (filled in below).

#[derive(Default)]
pub struct LibWorld {}
