//! Check framework: batch runner (seeded search over scenarios x schedules), minimiser, replay
//! files, known findings, evidence.

use std::collections::{BTreeMap, HashSet};
use std::fmt::Debug;
use std::hash::Hash;
use std::sync::atomic::{AtomicBool, AtomicU64, Ordering};
use std::sync::{Arc, Mutex};
use std::time::{Duration, Instant};

use serde::de::DeserializeOwned;
use serde::Serialize;
use serde_json::{json, Value};

use crate::ctx::{Policy, RunOut};
use crate::rng::{hash_of, mix, str_id, Rng};

#[derive(Clone, Copy, Debug, PartialEq, Eq)]
pub enum Tier {
    Quick,
    Thorough,
}

impl Tier {
    pub fn name(self) -> &'static str {
        match self {
            Tier::Quick => "quick",
            Tier::Thorough => "thorough",
        }
    }
}

#[derive(Clone, Debug)]
pub struct Violation {
    /// oracle id, e.g. "ticket-hung"
    pub oracle: String,
    /// oracle id + minimal causal pattern; matched against known_findings.json
    pub signature: String,
    pub msg: String,
}

impl Violation {
    pub fn new(oracle: &str, cause: &str, msg: String) -> Self {
        let signature = if cause.is_empty() { oracle.to_string() } else { format!("{oracle} {cause}") };
        Self { oracle: oracle.to_string(), signature, msg }
    }
}

#[derive(Default, Clone, Debug)]
pub struct Stats {
    pub counters: BTreeMap<&'static str, u64>,
}
impl Stats {
    pub fn add(&mut self, k: &'static str, n: u64) {
        if n > 0 {
            *self.counters.entry(k).or_insert(0) += n;
        }
    }
    pub fn hit(&mut self, k: &'static str) {
        self.add(k, 1)
    }
    pub fn merge(&mut self, o: &Stats) {
        for (k, v) in &o.counters {
            *self.counters.entry(k).or_insert(0) += v;
        }
    }
}

pub trait Check: Sync + Send + 'static {
    type Scn: Serialize + DeserializeOwned + Clone + Send + Sync + Hash + Debug + 'static;

    fn property(&self) -> &'static str;
    fn engine(&self) -> &'static str;
    fn technique(&self) -> &'static str {
        "deterministic simulation (seeded schedules + fault injection) over the real code; history oracles"
    }
    /// number of runs for the tier (the runner may stop earlier on the wall-clock cap)
    fn budget(&self, tier: Tier) -> u64;
    /// Scenario for run `idx`. `None` = nothing to run for this index (skipped).
    fn generate(&self, rng: &mut Rng, idx: u64, tier: Tier) -> Option<Self::Scn>;
    fn execute(&self, scn: &Self::Scn, policy: Policy, sched_seed: u64) -> RunOut;
    /// oracles; also record fault/probe counters
    fn check(&self, scn: &Self::Scn, out: &RunOut, stats: &mut Stats) -> Vec<Violation>;
    /// scenario simplifications, simplest first
    fn shrink(&self, scn: &Self::Scn) -> Vec<Self::Scn>;
    /// non-trivial by the stated rule
    fn nontrivial(&self, scn: &Self::Scn, out: &RunOut) -> bool;
    fn rule(&self) -> String;
    /// probes that must be non-zero at the given tier (else harness error)
    fn required_probes(&self, _tier: Tier) -> Vec<&'static str> {
        vec![]
    }
    fn components(&self) -> Value;
    fn assumptions(&self) -> Vec<String>;
    fn policy(&self, rng: &mut Rng) -> Policy {
        default_policy(rng)
    }
}

pub fn default_policy(rng: &mut Rng) -> Policy {
    match rng.below(10) {
        0 => Policy::Fifo,
        1 => Policy::Biased,
        2..=4 => Policy::Random,
        5..=7 => Policy::Sticky(*rng.pick(&[500u32, 800, 950])),
        _ => {
            let d = rng.range(1, 3);
            let mut pts: Vec<u32> = (0..d).map(|_| rng.below(60) as u32).collect();
            pts.sort();
            Policy::Pct(pts)
        }
    }
}

pub fn policy_name(p: &Policy) -> &'static str {
    match p {
        Policy::Fifo => "fifo",
        Policy::Biased => "biased",
        Policy::Random => "random",
        Policy::Sticky(_) => "sticky",
        Policy::Pct(_) => "pct",
        Policy::Replay(_) => "replay",
    }
}

pub fn hist_hash(out: &RunOut) -> u64 {
    hash_of(&out.hist)
}

// ------------------------------------------------------------------------------------------
// known findings

#[derive(Clone, Debug)]
pub struct Known {
    pub property: String,
    pub signature: String,
    pub status: String,
    pub what: String,
}

pub fn load_known(verif_dir: &str) -> Vec<Known> {
    let p = format!("{verif_dir}/known_findings.json");
    let Ok(txt) = std::fs::read_to_string(&p) else { return vec![] };
    let v: Value = serde_json::from_str(&txt).expect("known_findings.json is not valid JSON");
    let mut out = vec![];
    for e in v["findings"].as_array().cloned().unwrap_or_default() {
        out.push(Known {
            property: e["property"].as_str().unwrap_or("").to_string(),
            signature: e["signature"].as_str().unwrap_or("").to_string(),
            status: e["status"].as_str().unwrap_or("known").to_string(),
            what: e["what"].as_str().unwrap_or("").to_string(),
        });
    }
    out
}

fn is_known<'a>(known: &'a [Known], property: &str, sig: &str) -> Option<&'a Known> {
    known.iter().find(|k| k.status == "known" && k.property == property && k.signature == sig)
}

// ------------------------------------------------------------------------------------------
// replay files

pub fn write_replay<C: Check>(
    c: &C,
    dir: &str,
    seed: u64,
    idx: u64,
    scn: &C::Scn,
    choices: &[u32],
    v: &Violation,
    hash: u64,
    minimised: bool,
) -> String {
    std::fs::create_dir_all(dir).ok();
    let name = format!(
        "{dir}/{}-{}-{:016x}.json",
        c.property(),
        v.oracle,
        mix(&[seed, idx, str_id(&v.signature), hash])
    );
    let doc = json!({
        "property": c.property(),
        "engine": c.engine(),
        "seed": seed,
        "run_index": idx,
        "oracle": v.oracle,
        "signature": v.signature,
        "message": v.msg,
        "minimised": minimised,
        "history_hash": format!("{hash:016x}"),
        "scenario": scn,
        "choices": choices,
    });
    std::fs::write(&name, serde_json::to_string_pretty(&doc).unwrap()).expect("write replay");
    name
}

/// Re-execute a replay file. Exit code semantics: 1 = violation reproduced exactly, 2 = not.
pub fn replay<C: Check>(c: &C, doc: &Value, verbose: bool) -> i32 {
    let scn: C::Scn = serde_json::from_value(doc["scenario"].clone()).expect("scenario in replay file");
    let choices: Vec<u32> = serde_json::from_value(doc["choices"].clone()).expect("choices in replay file");
    let out = c.execute(&scn, Policy::Replay(choices), 0);
    let mut st = Stats::default();
    let vs = c.check(&scn, &out, &mut st);
    let h = hist_hash(&out);
    if verbose {
        for r in &out.hist {
            println!("  {:>4} t={:<8} {:?}", r.seq, r.t, r.ev);
        }
    }
    let want_sig = doc["signature"].as_str().unwrap_or("");
    let want_hash = doc["history_hash"].as_str().unwrap_or("");
    let got = vs.iter().find(|v| v.signature == want_sig);
    match got {
        Some(v) if format!("{h:016x}") == want_hash => {
            println!("REPLAYED property={} oracle={} signature=\"{}\"", c.property(), v.oracle, v.signature);
            println!("  {}", v.msg);
            println!("  history hash {h:016x} (identical)");
            1
        }
        Some(v) => {
            println!("replay reproduced signature \"{}\" but history hash differs: {h:016x} vs {want_hash}", v.signature);
            2
        }
        None => {
            println!(
                "replay did NOT reproduce \"{want_sig}\"; violations seen: {:?}",
                vs.iter().map(|v| v.signature.clone()).collect::<Vec<_>>()
            );
            2
        }
    }
}

// ------------------------------------------------------------------------------------------
// minimisation

fn fails_with<C: Check>(c: &C, scn: &C::Scn, choices: &[u32], sig: &str, extra_seeds: u64) -> Option<(Vec<u32>, RunOut)> {
    let mut st = Stats::default();
    let out = c.execute(scn, Policy::Replay(choices.to_vec()), 0);
    if c.check(scn, &out, &mut st).iter().any(|v| v.signature == sig) {
        return Some((out.choices.clone(), out));
    }
    for k in 0..extra_seeds {
        let pol = match k % 3 {
            0 => Policy::Fifo,
            1 => Policy::Random,
            _ => Policy::Sticky(800),
        };
        let out = c.execute(scn, pol, mix(&[0x5EED, k]));
        if c.check(scn, &out, &mut st).iter().any(|v| v.signature == sig) {
            return Some((out.choices.clone(), out));
        }
    }
    None
}

pub fn minimise<C: Check>(c: &C, scn: C::Scn, choices: Vec<u32>, sig: &str, deadline: Instant) -> (C::Scn, Vec<u32>) {
    let mut scn = scn;
    let mut choices = choices;
    // (1) scenario shrinking
    let mut progress = true;
    let mut rounds = 0;
    while progress && Instant::now() < deadline && rounds < 200 {
        progress = false;
        rounds += 1;
        for cand in c.shrink(&scn) {
            if Instant::now() >= deadline {
                break;
            }
            if let Some((ch, _)) = fails_with(c, &cand, &choices, sig, 8) {
                scn = cand;
                choices = ch;
                progress = true;
                break;
            }
        }
    }
    // (2) schedule shrinking: non-zero picks back to 0, in halves then singly
    let nonzero = |ch: &Vec<u32>| -> Vec<usize> { ch.iter().enumerate().filter(|(_, c)| **c != 0).map(|(i, _)| i).collect() };
    let mut chunk = nonzero(&choices).len();
    loop {
        let mut live = nonzero(&choices);
        if live.is_empty() || Instant::now() >= deadline {
            break;
        }
        chunk = chunk.min(live.len()).max(1);
        let mut changed = false;
        let mut i = 0;
        while i < live.len() && Instant::now() < deadline {
            let end = (i + chunk).min(live.len());
            let mut cand = choices.clone();
            for &p in &live[i..end] {
                cand[p] = 0;
            }
            if let Some((ch, _)) = fails_with(c, &scn, &cand, sig, 0) {
                choices = ch;
                live = nonzero(&choices);
                changed = true;
            } else {
                i = end;
            }
        }
        if chunk == 1 {
            if !changed {
                break;
            }
        } else {
            chunk /= 2;
        }
    }
    // trim trailing zeros (missing picks = 0)
    while choices.last() == Some(&0) {
        choices.pop();
    }
    (scn, choices)
}

// ------------------------------------------------------------------------------------------
// batch runner

pub struct BatchCfg {
    pub tier: Tier,
    pub seed: u64,
    pub threads: usize,
    pub wall_cap: Duration,
    pub verif_dir: String,
    pub runs_override: Option<u64>,
    pub write_evidence: bool,
    /// debugging aid: only keep violations whose signature contains this
    pub only: Option<String>,
}

struct Found<S> {
    idx: u64,
    scn: S,
    choices: Vec<u32>,
    v: Violation,
}

pub fn run_seed<C: Check>(c: &C, seed: u64, idx: u64) -> u64 {
    mix(&[seed, str_id(c.property()), idx])
}

/// Everything about run `idx` is a pure function of (seed, property, idx).
pub fn one_run<C: Check>(c: &C, seed: u64, idx: u64, tier: Tier) -> Option<(C::Scn, Policy, u64, RunOut)> {
    let rs = run_seed(c, seed, idx);
    let mut srng = Rng::new(mix(&[rs, 1]));
    let scn = c.generate(&mut srng, idx, tier)?;
    let mut prng = Rng::new(mix(&[rs, 2]));
    let policy = c.policy(&mut prng);
    let sched_seed = mix(&[rs, 3]);
    let out = c.execute(&scn, policy.clone(), sched_seed);
    Some((scn, policy, sched_seed, out))
}

pub fn run_batch<C: Check>(c: Arc<C>, cfg: BatchCfg) -> i32 {
    let t0 = Instant::now();
    let known = load_known(&cfg.verif_dir);
    let total = cfg.runs_override.unwrap_or_else(|| c.budget(cfg.tier));
    let next = Arc::new(AtomicU64::new(0));
    let stop = Arc::new(AtomicBool::new(false));
    let inflight: Arc<Vec<Mutex<Option<(Instant, u64)>>>> = Arc::new((0..cfg.threads).map(|_| Mutex::new(None)).collect());

    struct WorkerOut<S> {
        stats: Stats,
        runs: u64,
        skipped: u64,
        virt_ms: u64,
        picks: u64,
        scheds: HashSet<u64>,
        hists: HashSet<u64>,
        nontrivial: HashSet<u64>,
        policies: BTreeMap<&'static str, u64>,
        found: Vec<Found<S>>,
        known_hits: BTreeMap<String, u64>,
        samples: Vec<Value>,
        aborted: Vec<(u64, String)>,
        digest: u64,
    }

    // OS-level deadlock watchdog
    {
        let inflight = inflight.clone();
        let stop = stop.clone();
        let c2 = c.clone();
        let seed = cfg.seed;
        let tier = cfg.tier;
        let dir = format!("{}/replays", cfg.verif_dir);
        std::thread::spawn(move || loop {
            std::thread::sleep(Duration::from_millis(500));
            if stop.load(Ordering::Relaxed) {
                return;
            }
            for slot in inflight.iter() {
                let cur = *slot.lock().unwrap();
                if let Some((since, idx)) = cur {
                    if since.elapsed() > Duration::from_secs(30) {
                        let rs = run_seed(&*c2, seed, idx);
                        let mut srng = Rng::new(mix(&[rs, 1]));
                        let scn = c2.generate(&mut srng, idx, tier);
                        let v = Violation::new("os-deadlock", "", format!("run {idx} made no progress for 30 s of wall-clock time (a real thread is blocked)"));
                        let path = match scn {
                            Some(s) => write_replay(&*c2, &dir, seed, idx, &s, &[], &v, 0, false),
                            None => "-".into(),
                        };
                        println!("VIOLATION property={} replay={}", c2.property(), path);
                        println!("  oracle=os-deadlock {}", v.msg);
                        std::process::exit(1);
                    }
                }
            }
        });
    }

    let mut handles = Vec::new();
    for w in 0..cfg.threads {
        let c = c.clone();
        let next = next.clone();
        let stop = stop.clone();
        let inflight = inflight.clone();
        let seed = cfg.seed;
        let tier = cfg.tier;
        let wall_cap = cfg.wall_cap;
        let known = known.clone();
        let only = cfg.only.clone();
        handles.push(
            std::thread::Builder::new()
                .name(format!("sim-{w}"))
                .stack_size(16 << 20)
                .spawn(move || {
                    let mut o = WorkerOut::<C::Scn> {
                        stats: Stats::default(),
                        runs: 0,
                        skipped: 0,
                        virt_ms: 0,
                        picks: 0,
                        scheds: HashSet::new(),
                        hists: HashSet::new(),
                        nontrivial: HashSet::new(),
                        policies: BTreeMap::new(),
                        found: Vec::new(),
                        known_hits: BTreeMap::new(),
                        samples: Vec::new(),
                        aborted: Vec::new(),
                        digest: 0,
                    };
                    loop {
                        if stop.load(Ordering::Relaxed) {
                            break;
                        }
                        // blocks of 64 indices per grab
                        let base = next.fetch_add(64, Ordering::Relaxed);
                        if base >= total {
                            break;
                        }
                        if t0.elapsed() > wall_cap {
                            stop.store(true, Ordering::Relaxed);
                            break;
                        }
                        for idx in base..(base + 64).min(total) {
                            *inflight[w].lock().unwrap() = Some((Instant::now(), idx));
                            let Some((scn, policy, _ss, out)) = one_run(&*c, seed, idx, tier) else {
                                o.skipped += 1;
                                continue;
                            };
                            o.runs += 1;
                            o.virt_ms += out.end_ms;
                            o.picks += out.choices.len() as u64;
                            *o.policies.entry(policy_name(&policy)).or_insert(0) += 1;
                            if let Some(a) = &out.aborted {
                                o.aborted.push((idx, a.clone()));
                            }
                            let hh = hist_hash(&out);
                            // order-independent digest of (run index, history, schedule): equal across processes and worker counts
                            o.digest = o.digest.wrapping_add(mix(&[idx, hh, hash_of(&out.choices)]));
                            if o.hists.len() < 2_000_000 {
                                o.scheds.insert(hash_of(&out.choices));
                                o.hists.insert(hh);
                            }
                            let vs = c.check(&scn, &out, &mut o.stats);
                            if c.nontrivial(&scn, &out) && o.hists.len() < 2_000_000 {
                                o.nontrivial.insert(hh);
                            }
                            if o.samples.len() < 2 && (idx % 7 == 3 || total < 8) {
                                o.samples.push(json!({
                                    "run_index": idx,
                                    "policy": policy_name(&policy),
                                    "scenario": scn,
                                    "history": out.hist.iter().take(60).map(|r| format!("#{} t={} {:?}", r.seq, r.t, r.ev)).collect::<Vec<_>>(),
                                }));
                            }
                            for v in vs {
                                if let Some(f) = &only {
                                    if !v.signature.contains(f.as_str()) {
                                        continue;
                                    }
                                }
                                if let Some(k) = is_known(&known, c.property(), &v.signature) {
                                    *o.known_hits.entry(k.signature.clone()).or_insert(0) += 1;
                                } else if o.found.len() < 64 && !o.found.iter().any(|f| f.v.signature == v.signature) {
                                    o.found.push(Found { idx, scn: scn.clone(), choices: out.choices.clone(), v });
                                }
                            }
                        }
                        *inflight[w].lock().unwrap() = None;
                    }
                    *inflight[w].lock().unwrap() = None;
                    o
                })
                .unwrap(),
        );
    }

    let mut stats = Stats::default();
    let (mut runs, mut skipped, mut virt_ms, mut picks) = (0u64, 0u64, 0u64, 0u64);
    let mut scheds = HashSet::new();
    let mut hists = HashSet::new();
    let mut nontrivial = HashSet::new();
    let mut policies: BTreeMap<&'static str, u64> = BTreeMap::new();
    let mut found: Vec<Found<C::Scn>> = Vec::new();
    let mut known_hits: BTreeMap<String, u64> = BTreeMap::new();
    let mut samples = Vec::new();
    let mut aborted = Vec::new();
    let mut digest = 0u64;
    for h in handles {
        let o = h.join().expect("worker thread panicked (harness error)");
        stats.merge(&o.stats);
        runs += o.runs;
        skipped += o.skipped;
        virt_ms += o.virt_ms;
        picks += o.picks;
        scheds.extend(o.scheds);
        hists.extend(o.hists);
        nontrivial.extend(o.nontrivial);
        for (k, v) in o.policies {
            *policies.entry(k).or_insert(0) += v;
        }
        for f in o.found {
            match found.iter_mut().find(|g| g.v.signature == f.v.signature) {
                Some(g) => {
                    if f.idx < g.idx {
                        *g = f;
                    }
                }
                None => found.push(f),
            }
        }
        for (k, v) in o.known_hits {
            *known_hits.entry(k).or_insert(0) += v;
        }
        samples.extend(o.samples);
        aborted.extend(o.aborted);
        digest = digest.wrapping_add(o.digest);
    }
    stop.store(true, Ordering::Relaxed);
    found.sort_by_key(|f| f.idx);
    samples.truncate(3);

    let search_wall = t0.elapsed().as_secs_f64();
    let mut exit = 0;

    for (sig, n) in &known_hits {
        let k = known.iter().find(|k| &k.signature == sig).unwrap();
        println!("KNOWN-FINDING: property={} {} [{}] ({} runs)", c.property(), k.what, sig, n);
    }

    // report violations: minimise the first few distinct signatures
    let mut reported = Vec::new();
    let mut replay_failures = 0;
    let dir = format!("{}/replays", cfg.verif_dir);
    for f in found.iter().take(4) {
        let deadline = Instant::now() + Duration::from_secs(if cfg.tier == Tier::Quick { 20 } else { 60 });
        let (scn, choices) = minimise(&*c, f.scn.clone(), f.choices.clone(), &f.v.signature, deadline);
        // re-run the minimised case to get its message and hash
        let out = c.execute(&scn, Policy::Replay(choices.clone()), 0);
        let mut st = Stats::default();
        let vs = c.check(&scn, &out, &mut st);
        let (scn, choices, v, out) = match vs.into_iter().find(|v| v.signature == f.v.signature) {
            Some(v) => (scn, choices, v, out),
            None => {
                // minimised form lost it (should not happen): fall back to the original
                let out = c.execute(&f.scn, Policy::Replay(f.choices.clone()), 0);
                (f.scn.clone(), f.choices.clone(), f.v.clone(), out)
            }
        };
        let path = write_replay(&*c, &dir, cfg.seed, f.idx, &scn, &choices, &v, hist_hash(&out), true);
        println!("VIOLATION property={} replay={}", c.property(), path);
        println!("  oracle={} signature=\"{}\" first-seen-run={}", v.oracle, v.signature, f.idx);
        println!("  {}", v.msg);
        // the minimised file must reproduce the violation exactly in a fresh process, twice
        if let Ok(exe) = std::env::current_exe() {
            let mut ok = 0;
            for _ in 0..2 {
                let st = std::process::Command::new(&exe)
                    .arg("replay")
                    .arg(&path)
                    .env("VERIF_DIR", &cfg.verif_dir)
                    .stdout(std::process::Stdio::null())
                    .stderr(std::process::Stdio::null())
                    .status();
                if matches!(st.map(|s| s.code()), Ok(Some(1))) {
                    ok += 1;
                }
            }
            if ok == 2 {
                println!("  replayed twice in fresh processes: identical");
            } else {
                println!("  WARNING: replay in a fresh process reproduced it {ok}/2 times");
                replay_failures += 1;
            }
        }
        reported.push(json!({"oracle": v.oracle, "signature": v.signature, "message": v.msg, "replay": path, "run_index": f.idx}));
        exit = 1;
    }
    if found.len() > 4 {
        println!("  (+{} further distinct violation signatures not minimised)", found.len() - 4);
        for f in found.iter().skip(4) {
            println!("  also: signature=\"{}\" run={}", f.v.signature, f.idx);
        }
    }

    // harness health
    let mut harness_err: Vec<String> = Vec::new();
    if replay_failures > 0 {
        harness_err.push(format!("{replay_failures} replay file(s) did not reproduce exactly in a fresh process"));
    }
    if !aborted.is_empty() {
        harness_err.push(format!("{} runs aborted by the harness, first: run {} {}", aborted.len(), aborted[0].0, aborted[0].1));
    }
    let complete = runs + skipped >= total;
    if complete {
        for p in c.required_probes(cfg.tier) {
            if stats.counters.get(p).copied().unwrap_or(0) == 0 {
                harness_err.push(format!("reach probe '{p}' stayed at zero"));
            }
        }
    }

    let wall = t0.elapsed().as_secs_f64();
    if cfg.write_evidence {
        let ev = json!({
            "property_id": c.property(),
            "tier": cfg.tier.name(),
            "seed": cfg.seed,
            "level": "exploration",
            "wall_s": wall,
            "violations": found.len(),
            "coverage": {
                "evaluations": runs,
                "distinct_nontrivial": nontrivial.len(),
                "rule": c.rule(),
                "samples": samples,
                "exhaustive": false,
                "engine": c.engine(),
                "technique": c.technique(),
                "budget_runs": total,
                "budget_completed": complete,
                "runs_per_hour": if search_wall > 0.0 { (runs as f64 / search_wall * 3600.0) as u64 } else { 0 },
                "simulated_time_ms": virt_ms,
                "scheduler_picks": picks,
                "distinct_schedules": scheds.len(),
                "distinct_histories": hists.len(),
                "runs_digest": format!("{digest:016x}"),
                "policies": policies,
                "faults_and_probes_fired": stats.counters,
                "known_findings_hit": known_hits,
                "violations_reported": reported,
                "harness_errors": harness_err,
                "components": c.components(),
                "threads": cfg.threads,
            },
            "assumptions": c.assumptions(),
        });
        let dir = format!("{}/evidence", cfg.verif_dir);
        std::fs::create_dir_all(&dir).ok();
        let path = format!("{dir}/{}.json", c.property());
        std::fs::write(&path, serde_json::to_string_pretty(&ev).unwrap()).expect("write evidence");
    }

    println!(
        "{} {}: {} runs ({} skipped) in {:.1}s, {} distinct histories, {} non-trivial, {} distinct schedules, {:.1} h simulated, {} violations, {} known, digest {:016x}",
        c.property(),
        cfg.tier.name(),
        runs,
        skipped,
        wall,
        hists.len(),
        nontrivial.len(),
        scheds.len(),
        virt_ms as f64 / 3.6e6,
        found.len(),
        known_hits.len(),
        digest
    );
    if exit == 0 && !harness_err.is_empty() {
        for e in &harness_err {
            println!("HARNESS-ERROR: {e}");
        }
        return 2;
    }
    exit
}
