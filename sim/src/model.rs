//! C09: executable reference model of the documented Job semantics (DESIGN.md appendix A),
//! compared step by step with the real supervisor on tie-free scenarios.
//!
//! The model is written from the rustdoc of Job / Control / CommandState / Ticket, not from
//! task.rs. It consumes the same scenario (controls with send instants, child behaviours,
//! spawn-failure plan) and predicts every observable: child operations with instants, what each
//! probe sees, hook and error-handler calls, ticket resolution instants, the end of the task.

use std::collections::VecDeque;

use serde_json::Value;

use crate::check::{Check, Stats, Tier, Violation};
use crate::child::{ChildSpec, SigReact};
use crate::ctx::{Ev, Policy, RunOut, StateKind};
use crate::e1::{self, expected_os_signal, E1Scn, Op, Step};
use crate::p_e1::{e1_assumptions, e1_components, shrink_e1};
use crate::rng::Rng;

#[derive(Clone, Debug, PartialEq, Eq, PartialOrd, Ord)]
pub enum Obs {
    Spawn { child: u32, hook_env: i64 },
    SpawnFail { attempt: u32 },
    Signal { child: u32, sig: i32 },
    Kill { child: u32 },
    KillFail { child: u32 },
    WaitFail,
    SignalFail { child: u32, sig: i32 },
    Reaped { child: u32, status: i32 },
    Probe { op: u32, cur: String, prev: String },
    ProbeEnd { op: u32 },
    Hook { n: u32, cur: String, prev: String },
    Err { n: u32 },
    Resolved { op: u32 },
    TaskEnd,
}

fn sk(s: &StateKind) -> String {
    match s {
        // `previous` before the first finished run may be None or Some(Pending): identified
        StateKind::None | StateKind::Pending => "pending".into(),
        StateKind::Running => "running".into(),
        StateKind::Finished(c) => format!("finished({c})"),
    }
}

#[derive(Clone, Debug, PartialEq)]
enum Cur {
    Pending,
    Running(u32),
    Finished(i32),
}

impl Cur {
    fn name(&self) -> String {
        match self {
            Cur::Pending => "pending".into(),
            Cur::Running(_) => "running".into(),
            Cur::Finished(c) => format!("finished({c})"),
        }
    }
}

#[derive(Clone, Debug)]
enum Ctl {
    Op(u32, Op),
    /// second half of a composite: (ticket op id, control)
    Stop(Option<u32>),
    Start(Option<u32>),
    Delete(Option<u32>),
    TimerStop(u32),
    TimerRestart(u32),
}

struct MChild {
    spec: ChildSpec,
    death: Option<(u64, i32)>,
    /// the one-shot injected failures already used up
    kill_failed: bool,
    sig_failed: bool,
}

pub enum ModelResult {
    Trace(Vec<(u64, Obs)>),
    /// the scenario has a tie the documentation does not order: not compared
    Ambiguous(&'static str),
}

struct M<'a> {
    scn: &'a E1Scn,
    now: u64,
    cur: Cur,
    prev: String,
    timer: Option<(u64, bool, u32)>, // deadline, is_restart, ticket op
    on_end: Vec<u32>,
    restart_ticket: Option<u32>,
    hook: Option<(u32, Option<u64>)>, // (SetHook op id, async ms)
    errh: Option<Option<u64>>,
    q: [VecDeque<(Ctl, Option<u32>)>; 3], // normal, high, urgent: (control, ticket op)
    children: Vec<MChild>,
    attempts: u32,
    hook_n: u32,
    err_n: u32,
    arrivals: VecDeque<(u64, u32, Step)>,
    out: Vec<(u64, Obs)>,
    outstanding: Vec<u32>,
    gone: bool,
    amb: Option<&'static str>,
    /// the process just started fails its first wait(): reported as soon as the current control is over
    wait_fail_due: bool,
    /// (arrival, the ticket its sender awaited before sending it)
    after: Vec<(u32, u32)>,
}

impl<'a> M<'a> {
    fn emit(&mut self, o: Obs) {
        self.out.push((self.now, o));
    }
    fn resolve(&mut self, t: Option<u32>) {
        if let Some(op) = t {
            self.outstanding.retain(|x| *x != op);
            self.emit(Obs::Resolved { op });
        }
    }
    fn running_child(&self) -> Option<u32> {
        match self.cur {
            Cur::Running(k) => Some(k),
            _ => None,
        }
    }
    /// the sender of the next arrival awaited a ticket of its own first, and that ticket has not resolved yet
    fn front_blocked(&self) -> bool {
        match self.arrivals.front() {
            Some((_, id, _)) => self.after.iter().any(|(a, pred)| a == id && self.outstanding.contains(pred)),
            None => false,
        }
    }
    fn enqueue_arrivals_until(&mut self, t_incl: u64) {
        while let Some((t, _, _)) = self.arrivals.front() {
            if *t > t_incl || self.front_blocked() {
                break;
            }
            let (t, id, st) = self.arrivals.pop_front().unwrap();
            if self.after.iter().any(|(a, _)| *a == id) && t == self.now {
                // its sender was woken by a ticket at this very instant: whether the job task takes its next piece of
                // work before or after that sender gets to run is a scheduling matter
                let exit_ready = self.running_child().and_then(|k| self.children[k as usize].death).map(|d| d.0 <= self.now).unwrap_or(false);
                let timer_ready = self.timer.map(|(d, _, _)| d <= self.now).unwrap_or(false);
                if self.q.iter().any(|q| !q.is_empty()) || exit_ready || timer_ready {
                    self.amb = Some("a sender woken by its ticket sends on at that very instant while other work is ready");
                }
            }
            self.enqueue_one(t, id, &st);
        }
    }
    /// control `id` reaches the job's queues at `t`
    fn enqueue_one(&mut self, t: u64, id: u32, st: &Step) {
        {
            if self.gone {
                // ticket on a dead job: cancelled, resolves at once
                self.out.push((t, Obs::Resolved { op: id }));
                return;
            }
            self.outstanding.push(id);
            let tk = Some(id);
            match &st.op {
                Op::Restart => {
                    self.q[0].push_back((Ctl::Stop(None), None));
                    self.q[0].push_back((Ctl::Start(None), tk));
                }
                Op::RestartSig { sig, grace } => {
                    self.q[0].push_back((Ctl::Op(id, Op::StopSig { sig: *sig, grace: *grace }), None));
                    self.q[0].push_back((Ctl::Start(None), tk));
                }
                Op::Delete => {
                    self.q[0].push_back((Ctl::Stop(None), None));
                    self.q[0].push_back((Ctl::Delete(None), tk));
                }
                Op::DeleteNow => {
                    self.q[2].push_back((Ctl::Stop(None), None));
                    self.q[2].push_back((Ctl::Delete(None), tk));
                }
                Op::ToWait => self.q[1].push_back((Ctl::Op(id, st.op.clone()), tk)),
                // the bare variants, sent by hand: normal priority, nothing put in front
                Op::RawNextEnding => self.q[0].push_back((Ctl::Op(id, Op::ToWait), tk)),
                Op::RawDelete => self.q[0].push_back((Ctl::Delete(None), tk)),
                op => self.q[0].push_back((Ctl::Op(id, op.clone()), tk)),
            }
        }
    }
    /// the job task spends `ms` of virtual time inside a closure / hook / handler
    fn busy(&mut self, ms: u64) {
        if ms == 0 {
            return;
        }
        let end = self.now + ms;
        // arrivals strictly inside the span are queued; one exactly at the end is a tie
        if self.arrivals.iter().any(|(t, _, _)| *t == end) {
            self.amb = Some("arrival at the instant a time-consuming control ends");
        }
        self.enqueue_arrivals_until(end.saturating_sub(1));
        self.now = end;
    }
    /// an operation on the process failed: the error handler (if any) is called with it
    fn error(&mut self) {
        if let Some(ms) = self.errh {
            let n = self.err_n;
            self.err_n += 1;
            self.emit(Obs::Err { n });
            if let Some(ms) = ms {
                self.busy(ms);
            }
        }
    }
    fn spawn(&mut self) -> bool {
        // hook
        if let Some((hid, ms)) = self.hook {
            let n = self.hook_n;
            self.hook_n += 1;
            let (c, p) = (self.cur.name(), self.prev.clone());
            self.emit(Obs::Hook { n, cur: c, prev: p });
            let _ = hid;
            if let Some(ms) = ms {
                self.busy(ms);
            }
        }
        let attempt = self.attempts;
        self.attempts += 1;
        if self.scn.spawn_fail.contains(&attempt) {
            self.emit(Obs::SpawnFail { attempt });
            self.error();
            return false;
        }
        let k = self.children.len() as u32;
        let specs = &self.scn.children;
        let spec = if specs.is_empty() { ChildSpec::default() } else { specs[(k as usize).min(specs.len() - 1)].clone() };
        let death = spec.self_exit.map(|d| (self.now + d, spec.code));
        self.children.push(MChild { spec, death, kill_failed: false, sig_failed: false });
        let env = self.hook.map(|h| h.0 as i64).unwrap_or(-1);
        self.emit(Obs::Spawn { child: k, hook_env: env });
        self.cur = Cur::Running(k);
        self.wait_fail_due = self.children[k as usize].spec.fail_wait;
        true
    }
    fn reset(&mut self) {
        // "previous" becomes the state of the run being replaced
        self.prev = match &self.cur {
            Cur::Finished(c) => format!("finished({c})"),
            _ => "pending".into(),
        };
        self.cur = Cur::Pending;
    }
    /// false: the signal could not be sent (reported to the error handler; the control is over)
    fn signal(&mut self, k: u32, sig: i32) -> bool {
        let os = expected_os_signal(sig);
        {
            let c = &mut self.children[k as usize];
            if c.spec.fail_signal && !c.sig_failed {
                c.sig_failed = true;
                self.emit(Obs::SignalFail { child: k, sig: os });
                self.error();
                return false;
            }
        }
        self.emit(Obs::Signal { child: k, sig: os });
        let now = self.now;
        let c = &mut self.children[k as usize];
        let nd = if os == 9 {
            Some((now + c.spec.kill_lag, 1009))
        } else {
            match c.spec.on_signal {
                SigReact::Ignore => None,
                SigReact::Exit(d) => Some((now + d, 1000 + os)),
            }
        };
        if let Some((at, st)) = nd {
            match c.death {
                Some((old, _)) if old <= at => {}
                _ => c.death = Some((at, st)),
            }
        }
        true
    }
    /// kill + reap the running child k now; false: the kill failed (reported to the error handler), the process
    /// keeps running and the control is over
    fn kill_reap(&mut self, k: u32) -> bool {
        {
            let c = &mut self.children[k as usize];
            if c.spec.fail_kill && !c.kill_failed {
                c.kill_failed = true;
                self.emit(Obs::KillFail { child: k });
                self.error();
                return false;
            }
        }
        self.emit(Obs::Kill { child: k });
        let now = self.now;
        let c = &mut self.children[k as usize];
        let lag = c.spec.kill_lag;
        let (at, st) = match c.death {
            Some((at, st)) if at <= now + lag => (at.max(now), st),
            _ => {
                c.death = Some((now + lag, 1009));
                (now + lag, 1009)
            }
        };
        // a process that is slow to die keeps the job task waiting inside this control
        if at > now {
            self.busy(at - now);
        }
        self.emit(Obs::Reaped { child: k, status: st });
        self.cur = Cur::Finished(st);
        for t in std::mem::take(&mut self.on_end) {
            self.resolve(Some(t));
        }
        true
    }
    fn end_task(&mut self) {
        self.gone = true;
        self.emit(Obs::TaskEnd);
        for t in std::mem::take(&mut self.outstanding) {
            self.emit(Obs::Resolved { op: t });
        }
    }
    fn handle(&mut self, ctl: Ctl, tk: Option<u32>) {
        match ctl {
            Ctl::Start(_) | Ctl::Op(_, Op::Start) => {
                if self.running_child().is_none() {
                    self.reset();
                    self.spawn();
                }
                self.resolve(tk);
            }
            Ctl::Stop(_) | Ctl::Op(_, Op::Stop) => {
                if let Some(k) = self.running_child() {
                    self.kill_reap(k);
                }
                self.resolve(tk);
            }
            Ctl::TimerStop(t) => {
                if let Some(k) = self.running_child() {
                    self.kill_reap(k);
                }
                self.resolve(Some(t));
            }
            Ctl::Op(_, Op::StopSig { sig, grace }) => {
                if let Some(k) = self.running_child() {
                    if self.signal(k, sig) {
                        // the graceful stop completes at min(child exit, deadline); its own ticket (if any) resolves then
                        self.timer = Some((self.now.saturating_add(grace), false, tk.unwrap_or(u32::MAX)));
                    } else {
                        self.resolve(tk);
                    }
                } else {
                    self.resolve(tk);
                }
            }
            Ctl::Op(_, Op::TryRestart) => {
                if let Some(k) = self.running_child() {
                    if self.kill_reap(k) {
                        self.reset();
                        self.spawn();
                    }
                }
                self.resolve(tk);
            }
            Ctl::Op(_, Op::TryRestartSig { sig, grace }) => {
                if let Some(k) = self.running_child() {
                    if self.signal(k, sig) {
                        let t = tk.unwrap_or(u32::MAX);
                        self.timer = Some((self.now.saturating_add(grace), true, t));
                        self.restart_ticket = Some(t);
                    } else {
                        self.resolve(tk);
                    }
                } else {
                    self.resolve(tk);
                }
            }
            Ctl::TimerRestart(t) => {
                // this is the restart: whatever happens next, a later end of the process restarts nothing
                self.restart_ticket = None;
                if let Some(k) = self.running_child() {
                    if !self.kill_reap(k) {
                        self.resolve(Some(t));
                        return;
                    }
                }
                self.reset();
                self.spawn();
                self.resolve(Some(t));
            }
            Ctl::Op(_, Op::RawContinue) => {
                // sent by hand it is what the timer sends: stop whatever runs, start afresh; nothing stays pending
                self.restart_ticket = None;
                if let Some(k) = self.running_child() {
                    if !self.kill_reap(k) {
                        self.resolve(tk);
                        return;
                    }
                }
                self.reset();
                self.spawn();
                self.resolve(tk);
            }
            Ctl::Op(_, Op::Signal { sig }) => {
                if let Some(k) = self.running_child() {
                    self.signal(k, sig);
                }
                self.resolve(tk);
            }
            Ctl::Op(id, Op::ToWait) => {
                if self.running_child().is_none() {
                    self.resolve(tk);
                } else {
                    self.on_end.push(id);
                }
            }
            Ctl::Op(id, Op::Run) => {
                let (c, p) = (self.cur.name(), self.prev.clone());
                self.emit(Obs::Probe { op: id, cur: c, prev: p });
                self.resolve(tk);
            }
            Ctl::Op(id, Op::RunAsync { ms }) => {
                let (c, p) = (self.cur.name(), self.prev.clone());
                self.emit(Obs::Probe { op: id, cur: c, prev: p });
                self.busy(ms);
                self.emit(Obs::ProbeEnd { op: id });
                self.resolve(tk);
            }
            Ctl::Op(id, Op::RunSend { async_ms, inner }) => {
                // a closure that sends a control to its own job: queued at the instant the closure sends it (for the
                // async form: after its `async_ms`), behind whatever is queued already
                let (c, p) = (self.cur.name(), self.prev.clone());
                self.emit(Obs::Probe { op: id, cur: c, prev: p });
                if let Some(ms) = async_ms {
                    self.busy(ms);
                }
                // (sends from outside at this very instant were queued first: see run_model)
                self.enqueue_arrivals_until(self.now);
                self.enqueue_one(self.now, E1Scn::inner_id(id), &inner);
                if async_ms.is_some() {
                    self.emit(Obs::ProbeEnd { op: id });
                }
                self.resolve(tk);
            }
            Ctl::Op(id, Op::SetHook { async_ms }) => {
                self.hook = Some((id, async_ms));
                self.resolve(tk);
            }
            Ctl::Op(_, Op::UnsetHook) => {
                self.hook = None;
                self.resolve(tk);
            }
            Ctl::Op(_, Op::SetErr { async_ms }) => {
                self.errh = Some(async_ms);
                self.resolve(tk);
            }
            Ctl::Op(_, Op::UnsetErr) => {
                self.errh = None;
                self.resolve(tk);
            }
            Ctl::Delete(_) => {
                self.resolve(tk);
                self.end_task();
            }
            Ctl::Op(_, Op::Restart | Op::RestartSig { .. } | Op::Delete | Op::DeleteNow | Op::RawDelete | Op::RawNextEnding) => unreachable!("composites are expanded on arrival"),
            Ctl::Op(_, Op::RunStall { .. }) => unreachable!("not modelled: filtered out before the model runs"),
        }
    }
    fn handle_exit(&mut self, k: u32) {
        let (_, st) = self.children[k as usize].death.unwrap();
        self.emit(Obs::Reaped { child: k, status: st });
        self.cur = Cur::Finished(st);
        if let Some((_, is_restart, t)) = self.timer.take() {
            if !is_restart && t != u32::MAX {
                self.resolve(Some(t));
            }
        }
        for t in std::mem::take(&mut self.on_end) {
            self.resolve(Some(t));
        }
        if let Some(t) = self.restart_ticket.take() {
            self.reset();
            self.spawn();
            if t != u32::MAX {
                self.resolve(Some(t));
            }
        }
    }
}

/// `out`: the recorded run. With one sender that never waits for its own tickets the arrival instants follow from the
/// scenario alone; with several senders, or senders that await a ticket before sending on, the model takes the
/// *observed* arrival instants and order (each send is one atomic step: logged, then queued) and predicts everything
/// else from them.
pub fn run_model(scn: &E1Scn, out: Option<&RunOut>) -> ModelResult {
    if scn.drop_handles {
        return ModelResult::Ambiguous("outside the model's scope (dropped handles)");
    }
    if scn.children.iter().any(|c| c.wait_fail_after.is_some()) {
        return ModelResult::Ambiguous("outside the model's scope (a wait() failing in mid-run)");
    }
    for (_, _, _, st) in scn.all_ops() {
        if matches!(st.op, Op::RunStall { .. }) {
            return ModelResult::Ambiguous("stalled job task (slow-node fault) is not modelled");
        }
        if st.cancel_after.is_some() || st.late_clone.is_some() {
            return ModelResult::Ambiguous("cancelled / late-cloning waiters are not modelled");
        }
    }
    let mut arrivals = VecDeque::new();
    let mut after: Vec<(u32, u32)> = Vec::new();
    for (si, steps) in scn.senders.iter().enumerate() {
        for i in 1..steps.len() {
            if steps[i - 1].inline {
                after.push((E1Scn::op_id(si, i), E1Scn::op_id(si, i - 1)));
            }
        }
    }
    let simple = scn.senders.len() == 1 && scn.senders[0].iter().all(|st| !st.inline);
    if simple {
        let mut t = 0;
        for (i, st) in scn.senders[0].iter().enumerate() {
            t += st.gap;
            arrivals.push_back((t, E1Scn::op_id(0, i), st.clone()));
        }
    } else {
        let Some(out) = out else {
            return ModelResult::Ambiguous("several senders or awaited tickets: needs the recorded arrivals");
        };
        if out.hist.iter().any(|r| matches!(r.ev, Ev::Hung { .. })) {
            return ModelResult::Ambiguous("a waiter was released by the 1 h watchdog");
        }
        let mut last: Option<(u64, u8)> = None;
        for r in &out.hist {
            if let Ev::CtlSend { sender, op, .. } = &r.ev {
                if *op >= e1::INNER {
                    continue; // sent from inside a closure on the job task: the model sends it itself
                }
                // two senders at one instant: which send the job task saw first between two of its own steps is not
                // something the documentation orders
                if let Some((t, s)) = last {
                    if t == r.t && s != *sender {
                        return ModelResult::Ambiguous("two senders share an instant");
                    }
                }
                last = Some((r.t, *sender));
                arrivals.push_back((r.t, *op, scn.op(*op).clone()));
            }
        }
        let sent = arrivals.len();
        if sent != scn.senders.iter().map(|s| s.len()).sum::<usize>() {
            return ModelResult::Ambiguous("a sender was left waiting (1 h watchdog): not every control was sent");
        }
    }
    let mut m = M {
        scn,
        now: 0,
        cur: Cur::Pending,
        prev: "pending".into(),
        timer: None,
        on_end: vec![],
        restart_ticket: None,
        hook: None,
        errh: None,
        q: [VecDeque::new(), VecDeque::new(), VecDeque::new()],
        children: vec![],
        attempts: 0,
        hook_n: 0,
        err_n: 0,
        arrivals,
        out: vec![],
        outstanding: vec![],
        gone: false,
        amb: None,
        wait_fail_due: false,
        after,
    };
    // the end of the observed scenario, when there is one
    let horizon = out
        .and_then(|o| o.hist.iter().find(|r| matches!(r.ev, Ev::Note { what: "task-finished-at-end", .. })).map(|r| r.t))
        .unwrap_or(1 << 60);
    let mut steps = 0;
    loop {
        steps += 1;
        if steps > 10_000 {
            return ModelResult::Ambiguous("model did not quiesce");
        }
        if let Some(a) = m.amb {
            return ModelResult::Ambiguous(a);
        }
        if m.gone {
            // remaining arrivals resolve at once
            m.enqueue_arrivals_until(u64::MAX);
            break;
        }
        m.enqueue_arrivals_until(m.now);
        if m.wait_fail_due {
            // the job task watches its process before anything else: a failing wait() is reported to the error
            // handler, and watching resumes (the failure is one-shot)
            m.wait_fail_due = false;
            m.emit(Obs::WaitFail);
            m.error();
            continue;
        }
        let exit_ready = m.running_child().and_then(|k| m.children[k as usize].death.map(|d| (k, d.0))).filter(|(_, at)| *at <= m.now);
        let timer_past = m.timer.map(|(d, _, _)| d <= m.now).unwrap_or(false);
        let ctl_ready = timer_past || !m.q[2].is_empty() || !m.q[1].is_empty() || (m.timer.is_none() && !m.q[0].is_empty());
        // (impl, since fix S12) the end of the process is observed before the next control is handled
        if let Some((k, _)) = exit_ready {
            m.handle_exit(k);
            continue;
        }
        if ctl_ready {
            let (ctl, tk) = if timer_past {
                let (_, is_restart, t) = m.timer.take().unwrap();
                (if is_restart { Ctl::TimerRestart(t) } else { Ctl::TimerStop(t) }, None)
            } else if let Some(x) = m.q[2].pop_front() {
                x
            } else if let Some(x) = m.q[1].pop_front() {
                x
            } else {
                m.q[0].pop_front().unwrap()
            };
            m.handle(ctl, tk);
            continue;
        }
        // idle: sleep until the next event
        let next_exit = m.running_child().and_then(|k| m.children[k as usize].death.map(|d| d.0));
        let next_timer = m.timer.map(|t| t.0);
        let next_arrival = if m.front_blocked() { None } else { m.arrivals.front().map(|a| a.0.max(m.now)) };
        let cands: Vec<u64> = [next_exit, next_timer, next_arrival].iter().flatten().copied().collect();
        let Some(&next) = cands.iter().min() else { break };
        if next >= horizon {
            // (a grace period that outlasts the scenario: nothing beyond its end is predicted)
            break;
        }
        if cands.iter().filter(|c| **c == next).count() > 1 {
            return ModelResult::Ambiguous("two of {send, process end, timer expiry} share an instant");
        }
        m.now = next;
    }
    if let Some(a) = m.amb {
        return ModelResult::Ambiguous(a);
    }
    // only tickets somebody awaits are observable
    let observed: Vec<u32> = scn.all_ops().into_iter().filter(|(_, _, _, s)| s.waiters > 0 || s.inline).map(|(id, _, _, _)| id).collect();
    let mut out: Vec<(u64, Obs)> = m
        .out
        .into_iter()
        .filter(|(_, o)| match o {
            Obs::Resolved { op } => observed.contains(op),
            _ => true,
        })
        .collect();
    out.sort();
    ModelResult::Trace(out)
}

pub fn observed_trace(scn: &E1Scn, out: &RunOut) -> Vec<(u64, Obs)> {
    let mut v = Vec::new();
    let mut seen_res: Vec<u32> = Vec::new();
    for r in &out.hist {
        let o = match &r.ev {
            Ev::Note { what: "task-finished-at-end", .. } => break,
            Ev::Spawn { child, hook_env, .. } => Obs::Spawn { child: *child, hook_env: *hook_env },
            Ev::SpawnFail { attempt, .. } => Obs::SpawnFail { attempt: *attempt },
            Ev::Signal { child, sig, .. } => Obs::Signal { child: *child, sig: *sig },
            Ev::Kill { child } => Obs::Kill { child: *child },
            Ev::KillFail { child } => Obs::KillFail { child: *child },
            Ev::WaitFail { .. } => Obs::WaitFail,
            Ev::SignalFail { child, sig } => Obs::SignalFail { child: *child, sig: *sig },
            Ev::Reaped { child, status } => Obs::Reaped { child: *child, status: *status },
            Ev::MarkerStart { op, cur, prev } => Obs::Probe { op: *op, cur: sk(cur), prev: sk(prev) },
            Ev::MarkerEnd { op } => Obs::ProbeEnd { op: *op },
            Ev::HookCall { n, cur, prev, .. } => Obs::Hook { n: *n, cur: sk(cur), prev: sk(prev) },
            Ev::JobErr { n, .. } => Obs::Err { n: *n },
            // (a waiter left to the 1 h watchdog is "never resolved": no observation)
            Ev::Resolved { op, .. } => {
                // several waiters of one ticket: one observation (C07 checks that they agree)
                if seen_res.contains(op) {
                    continue;
                }
                seen_res.push(*op);
                Obs::Resolved { op: *op }
            }
            Ev::TaskEnd { .. } => Obs::TaskEnd,
            _ => continue,
        };
        v.push((r.t, o));
    }
    let _ = scn;
    v.sort();
    v
}

// ------------------------------------------------------------------------------------------
// scenario generation: bounded-exhaustive + random, single sender, tie-avoiding durations

/// alphabet for the exhaustive part (24 letters)
fn letter(k: u64, sig: &mut e1::SigAlloc) -> Op {
    match k {
        0 => Op::Start,
        1 => Op::Stop,
        2 => Op::Restart,
        3 => Op::TryRestart,
        4 => Op::StopSig { sig: sig.fresh(), grace: 40 },
        5 => Op::RestartSig { sig: sig.fresh(), grace: 40 },
        6 => Op::TryRestartSig { sig: sig.fresh(), grace: 40 },
        7 => Op::Signal { sig: sig.fresh() },
        8 => Op::ToWait,
        9 => Op::Delete,
        10 => Op::DeleteNow,
        11 => Op::Run,
        12 => Op::RunAsync { ms: 7 },
        13 => Op::SetHook { async_ms: None },
        14 => Op::SetHook { async_ms: Some(3) },
        15 => Op::UnsetHook,
        16 => Op::SetErr { async_ms: None },
        // signal(ForceStop): kills without the job noticing until the process end is observed
        17 => Op::Signal { sig: 9 },
        // the timer's own control, sent by hand
        18 => Op::RawContinue,
        // re-entrancy: closures that send a control to their own job from inside the job task
        19 => Op::RunSend { async_ms: None, inner: Box::new(inner_step(Op::Start)) },
        20 => Op::RunSend { async_ms: Some(7), inner: Box::new(inner_step(Op::TryRestart)) },
        21 => Op::RunSend { async_ms: None, inner: Box::new(inner_step(Op::ToWait)) },
        // the bare Delete / NextEnding variants, sent by hand
        22 => Op::RawDelete,
        _ => Op::RawNextEnding,
    }
}
fn inner_step(op: Op) -> Step {
    Step { gap: 0, op, waiters: 1, inline: false, cancel_after: None, late_clone: None }
}
pub const ALPHA: u64 = 24;
/// child behaviour classes with durations chosen off the grid of send instants and graces
fn klass(k: u64) -> ChildSpec {
    match k {
        0 => ChildSpec { on_signal: SigReact::Exit(0), ..Default::default() },
        1 => ChildSpec { on_signal: SigReact::Exit(13), ..Default::default() },
        2 => ChildSpec { on_signal: SigReact::Exit(90), ..Default::default() },
        3 => ChildSpec { on_signal: SigReact::Ignore, ..Default::default() },
        4 => ChildSpec { self_exit: Some(23), code: 0, on_signal: SigReact::Exit(0), ..Default::default() },
        _ => ChildSpec { self_exit: Some(23), code: 3, on_signal: SigReact::Ignore, ..Default::default() },
    }
}
pub const CLASSES: u64 = 6;

/// fault plans of the exhaustive part: none, first / second spawn fails, first kill / first signal / first wait on the first process fails
pub const PLANS: u64 = 6;

/// number of exhaustive scenarios of length <= max_len: sum ALPHA^len * 2 (burst/settled) * CLASSES * PLANS
pub fn exhaustive_count(max_len: u32) -> u64 {
    (1..=max_len).map(|l| ALPHA.pow(l) * 2 * CLASSES * PLANS).sum()
}

pub fn exhaustive_scn(mut idx: u64, max_len: u32) -> Option<E1Scn> {
    let mut len = 0;
    for l in 1..=max_len {
        let n = ALPHA.pow(l) * 2 * CLASSES * PLANS;
        if idx < n {
            len = l;
            break;
        }
        idx -= n;
    }
    if len == 0 {
        return None;
    }
    let settled = idx % 2 == 1;
    idx /= 2;
    let class = idx % CLASSES;
    idx /= CLASSES;
    let sf = idx % PLANS;
    idx /= PLANS;
    let mut sigs = e1::SigAlloc::new();
    let mut steps = Vec::new();
    for i in 0..len {
        let k = idx % ALPHA;
        idx /= ALPHA;
        let gap = if settled { 1000 } else if i == 0 { 0 } else { 0 };
        steps.push(Step { gap, op: letter(k, &mut sigs), waiters: 1, inline: false, cancel_after: None, late_clone: None });
    }
    Some(E1Scn {
        family: if settled { "exh-settled".into() } else { "exh-burst".into() },
        grouped: false,
        session: false,
        children: vec![ChildSpec { fail_kill: sf == 3, fail_signal: sf == 4, fail_wait: sf == 5, ..klass(class) }],
        spawn_fail: match sf {
            1 => vec![0],
            2 => vec![1],
            _ => vec![],
        },
        senders: vec![steps],
        drop_handles: false,
    })
}

pub fn gen_model_random(rng: &mut Rng) -> E1Scn {
    let mut sigs = e1::SigAlloc::new();
    // (one in 25: a long history)
    let n = if rng.chance(1, 25) { rng.range(60, 160) } else { rng.range(2, 30) };
    let mut steps = Vec::new();
    // send instants on multiples of 100 (or bursts); graces, reactions and self-exits off that grid
    let graces = [0u64, 17, 40, 130, 260];
    for _ in 0..n {
        let gap = match rng.below(5) {
            0 | 1 => 0,
            2 => 100,
            3 => 300,
            _ => 1000,
        };
        let k = rng.below(ALPHA + 3);
        let mut op = letter(k.min(ALPHA - 1), &mut sigs);
        match &mut op {
            Op::StopSig { grace, sig } | Op::RestartSig { grace, sig } | Op::TryRestartSig { grace, sig } => {
                *grace = *rng.pick(&graces);
                if rng.chance(1, 30) {
                    // Duration::MAX: "wait for ever"
                    *grace = u64::MAX;
                }
                if rng.chance(1, 12) {
                    // ForceStop as the "graceful" signal
                    *sig = 9;
                }
            }
            Op::RunAsync { ms } => *ms = *rng.pick(&[0u64, 7, 31, 150]),
            Op::SetHook { async_ms: Some(ms) } => *ms = *rng.pick(&[3u64, 11, 45]),
            Op::RunSend { async_ms, inner } => {
                *async_ms = *rng.pick(&[None, None, Some(0u64), Some(7), Some(31)]);
                let mut io = letter(*rng.pick(&[0u64, 1, 2, 3, 4, 5, 6, 7, 8, 9, 10, 11, 12, 13, 14, 15, 16, 17, 18, 22, 23]), &mut sigs);
                if let Op::StopSig { grace, .. } | Op::RestartSig { grace, .. } | Op::TryRestartSig { grace, .. } = &mut io {
                    *grace = *rng.pick(&graces);
                }
                inner.op = io;
                inner.waiters = rng.below(3) as u8;
            }
            _ => {}
        }
        if k >= ALPHA {
            op = match k - ALPHA {
                0 => Op::UnsetErr,
                1 => Op::SetErr { async_ms: Some(9) },
                _ => Op::Run,
            };
        }
        steps.push(Step { gap, op, waiters: rng.below(3) as u8, inline: false, cancel_after: None, late_clone: None });
    }
    let children = (0..rng.range(1, 4))
        .map(|_| {
            let mut c = klass(rng.below(CLASSES));
            if let Some(d) = c.self_exit.as_mut() {
                *d = *rng.pick(&[23u64, 57, 211, 999]);
            }
            if let SigReact::Exit(d) = &mut c.on_signal {
                *d = *rng.pick(&[0u64, 13, 29, 90, 333]);
            }
            // one-shot failures of the operations on this process
            c.fail_kill = rng.chance(1, 5);
            c.fail_signal = rng.chance(1, 6);
            c.fail_wait = rng.chance(1, 8);
            if rng.chance(1, 6) {
                c.kill_lag = *rng.pick(&[7u64, 61, 5003]);
            }
            c
        })
        .collect();
    let mut spawn_fail = vec![];
    if rng.chance(1, 3) {
        spawn_fail.push(rng.below(5) as u32);
    }
    E1Scn { family: "model-random".into(), grouped: false, session: false, children, spawn_fail, senders: vec![steps], drop_handles: false }
}

/// 2-3 senders on disjoint time grids (so that their sends rarely share an instant), some steps awaiting their own
/// ticket before the sender goes on
pub fn gen_model_multi(rng: &mut Rng) -> E1Scn {
    let mut base = gen_model_random(rng);
    let all: Vec<Step> = std::mem::take(&mut base.senders[0]);
    let n = rng.range(2, 3) as usize;
    let offsets = [0u64, 37, 61];
    let mut senders: Vec<Vec<Step>> = vec![Vec::new(); n];
    for st in all {
        let k = rng.below(n as u64) as usize;
        let mut st = st;
        // each sender keeps to its own grid: multiples of 100 plus its offset
        st.gap = match rng.below(4) {
            0 => 0,
            1 => 100,
            2 => 300,
            _ => 1000,
        };
        if senders[k].is_empty() {
            st.gap += offsets[k];
        }
        if rng.chance(1, 4) && !matches!(st.op, Op::ToWait) {
            st.inline = true;
        }
        senders[k].push(st);
    }
    senders.retain(|s| !s.is_empty());
    base.senders = senders;
    base.family = "model-multi".into();
    base
}

pub struct C09;

impl C09 {
    fn quick_exh() -> u64 {
        exhaustive_count(3)
    }
}

impl Check for C09 {
    type Scn = E1Scn;
    fn property(&self) -> &'static str {
        "C09"
    }
    fn engine(&self) -> &'static str {
        "E1-jobsim + reference model"
    }
    fn technique(&self) -> &'static str {
        "deterministic simulation of the real job task compared step by step with an executable reference model of the documented API (refinement check over recorded histories), on bounded-exhaustive and seeded-random tie-free scenarios"
    }
    fn budget(&self, tier: Tier) -> u64 {
        match tier {
            // all sequences of length <= 3 (x send style x child class x failure plan), then random
            Tier::Quick => Self::quick_exh() + 600_000,
            // all of length <= 4 under 4 schedule seeds, then random
            Tier::Thorough => 4 * exhaustive_count(4) + 60_000_000,
        }
    }
    fn generate(&self, rng: &mut Rng, idx: u64, tier: Tier) -> Option<E1Scn> {
        match tier {
            Tier::Quick => {
                if idx < Self::quick_exh() {
                    exhaustive_scn(idx, 3)
                } else if idx % 400 == 11 {
                    Some(crate::p_e1::gen_cycles(rng))
                } else if idx % 3 == 2 {
                    Some(gen_model_multi(rng))
                } else {
                    Some(gen_model_random(rng))
                }
            }
            Tier::Thorough => {
                let n = exhaustive_count(4);
                if idx < 4 * n {
                    exhaustive_scn(idx % n, 4)
                } else if idx % 400 == 11 {
                    Some(crate::p_e1::gen_cycles(rng))
                } else if idx % 3 == 2 {
                    Some(gen_model_multi(rng))
                } else {
                    Some(gen_model_random(rng))
                }
            }
        }
    }
    fn execute(&self, scn: &E1Scn, policy: Policy, sched_seed: u64) -> RunOut {
        e1::execute(scn, policy, sched_seed)
    }
    fn check(&self, scn: &E1Scn, out: &RunOut, stats: &mut Stats) -> Vec<Violation> {
        let mut vs = Vec::new();
        match run_model(scn, Some(out)) {
            ModelResult::Ambiguous(why) => {
                stats.hit("probe:scenario-tied-not-compared");
                if scn.has_reentrant() {
                    stats.hit("probe:reentrant-scenario-tied-not-compared");
                }
                if scn.senders.len() > 1 {
                    stats.hit("probe:several-senders-tied-not-compared");
                }
                let _ = why;
            }
            ModelResult::Trace(want) => {
                stats.hit("probe:compared-with-model");
                if scn.senders.len() > 1 {
                    stats.hit("probe:several-senders-compared-with-model");
                }
                if scn.senders.iter().flatten().any(|s| s.inline) {
                    stats.hit("probe:awaiting-sender-compared-with-model");
                }
                if out.hist.iter().any(|r| matches!(r.ev, Ev::CtlSend { op, .. } if op >= e1::INNER)) {
                    stats.hit("probe:control-sent-from-inside-a-closure-compared-with-model");
                }
                let got = observed_trace(scn, out);
                // nothing beyond the end of the scenario can be compared (a grace period may outlast it: "wait for ever")
                let horizon = out.hist.iter().find(|r| matches!(r.ev, Ev::Note { what: "task-finished-at-end", .. })).map(|r| r.t).unwrap_or(u64::MAX);
                let want: Vec<(u64, Obs)> = want.into_iter().filter(|(t, _)| *t < horizon).collect();
                let got: Vec<(u64, Obs)> = got.into_iter().filter(|(t, _)| *t < horizon).collect();
                stats.add("probe:observations-compared", want.len() as u64);
                if want.iter().any(|(_, o)| matches!(o, Obs::SpawnFail { .. })) {
                    stats.hit("fault:spawn-failure");
                }
                if want.iter().any(|(_, o)| matches!(o, Obs::KillFail { .. })) {
                    stats.hit("fault:kill-error");
                }
                if want.iter().any(|(_, o)| matches!(o, Obs::SignalFail { .. })) {
                    stats.hit("fault:signal-error");
                }
                if want.iter().any(|(_, o)| matches!(o, Obs::WaitFail)) {
                    stats.hit("fault:wait-error");
                }
                if scn.children.iter().any(|c| c.kill_lag > 0) && want.iter().any(|(_, o)| matches!(o, Obs::Kill { .. })) {
                    stats.hit("fault:slow-death-after-kill");
                }
                if want.iter().any(|(_, o)| matches!(o, Obs::Err { .. })) {
                    stats.hit("probe:error-handler-called");
                }
                if want.iter().any(|(_, o)| matches!(o, Obs::Hook { .. })) {
                    stats.hit("probe:spawn-hook-called");
                }
                if want.iter().any(|(_, o)| matches!(o, Obs::Kill { .. })) {
                    stats.hit("probe:kill");
                }
                if want.iter().any(|(_, o)| matches!(o, Obs::TaskEnd)) {
                    stats.hit("probe:job-task-ended");
                }
                if got != want {
                    // first difference
                    let mut i = 0;
                    while i < want.len() && i < got.len() && want[i] == got[i] {
                        i += 1;
                    }
                    let w = want.get(i);
                    let g = got.get(i);
                    let kind = |o: Option<&(u64, Obs)>| -> &'static str {
                        match o.map(|x| &x.1) {
                            None => "nothing",
                            Some(Obs::Spawn { .. }) => "spawn",
                            Some(Obs::SpawnFail { .. }) => "spawn-failure",
                            Some(Obs::Signal { .. }) => "signal",
                            Some(Obs::Kill { .. }) => "kill",
                            Some(Obs::KillFail { .. }) => "kill-failure",
                            Some(Obs::WaitFail) => "wait-failure",
                            Some(Obs::SignalFail { .. }) => "signal-failure",
                            Some(Obs::Reaped { .. }) => "reap",
                            Some(Obs::Probe { .. }) | Some(Obs::ProbeEnd { .. }) => "probe",
                            Some(Obs::Hook { .. }) => "spawn-hook",
                            Some(Obs::Err { .. }) => "error-handler",
                            Some(Obs::Resolved { .. }) => "ticket",
                            Some(Obs::TaskEnd) => "task-end",
                        }
                    };
                    vs.push(Violation::new(
                        "differs-from-reference-model",
                        &format!("model={} real={}", kind(w), kind(g)),
                        format!("first difference at observation {i}: documented semantics predict {w:?}, the job task did {g:?}"),
                    ));
                }
            }
        }
        vs
    }
    fn shrink(&self, scn: &E1Scn) -> Vec<E1Scn> {
        shrink_e1(scn)
    }
    fn nontrivial(&self, scn: &E1Scn, out: &RunOut) -> bool {
        !matches!(run_model(scn, Some(out)), ModelResult::Ambiguous(_)) && out.hist.iter().any(|r| matches!(r.ev, Ev::Spawn { .. }))
    }
    fn rule(&self) -> String {
        "quick: every control sequence of length <= 3 over a 19-letter alphabet x {burst, settled} x 6 child behaviour classes x 6 fault plans (none; first or second spawn fails; first kill, signal or wait on the first process fails), then seeded-random sequences of length 2-30 (thorough: length <= 4 under four schedule seeds, then random); each run under a seeded scheduling policy. distinct = distinct hash of the recorded history; non-trivial = the scenario is tie-free (so it was compared observation by observation with the reference model) and spawned at least one child".into()
    }
    fn required_probes(&self, _tier: Tier) -> Vec<&'static str> {
        vec![
            "probe:compared-with-model",
            "fault:spawn-failure",
            "fault:kill-error",
            "fault:signal-error",
            "fault:wait-error",
            "fault:slow-death-after-kill",
            "probe:error-handler-called",
            "probe:spawn-hook-called",
            "probe:kill",
            "probe:job-task-ended",
        ]
    }
    fn components(&self) -> Value {
        let mut c = e1_components();
        c["model"] = serde_json::json!("reference model of the documented Job API (sim/src/model.rs, written from the rustdoc; DESIGN.md appendix A)");
        c
    }
    fn assumptions(&self) -> Vec<String> {
        let mut a = e1_assumptions();
        a.push("scenarios in which two of {send, process end, timer expiry, end of a time-consuming control} coincide are detected by the model and not compared (the documentation does not order them); they are covered by the order-insensitive oracles of C04/C06/C07/C10".into());
        a
    }
}
