//! E1 "jobsim": the real supervisor (`start_job`, job task, PriorityReceiver, Timer, Flag, Ticket,
//! CommandState) driven by simulated client tasks against SimChild.

use std::sync::Arc;
use std::time::Duration;

use serde::{Deserialize, Serialize};
use watchexec_signals::Signal;
use watchexec_supervisor::job::{start_job, CommandState, Job, JobTaskContext, Ticket};

use crate::child::{finalize_world, sim_command, ChildSpec, SigReact};
use crate::ctx::{log, run_sim, sleep_ms, with_run, Ev, Policy, RunOut, SimOpts, StateKind, HOUR_MS};
use crate::rng::Rng;

// ------------------------------------------------------------------------------------------
// scenario

#[derive(Clone, Debug, Serialize, Deserialize, PartialEq, Eq, Hash)]
pub enum Op {
    Start,
    Stop,
    Restart,
    TryRestart,
    StopSig { sig: i32, grace: u64 },
    RestartSig { sig: i32, grace: u64 },
    TryRestartSig { sig: i32, grace: u64 },
    Signal { sig: i32 },
    ToWait,
    Delete,
    DeleteNow,
    Run,
    RunAsync { ms: u64 },
    /// marker closure after which the job task is stalled ("slow node") for `ms`
    RunStall { ms: u64 },
    SetHook { async_ms: Option<u64> },
    UnsetHook,
    SetErr { async_ms: Option<u64> },
    UnsetErr,
    /// `job.control(Control::ContinueTryGracefulRestart)`: a public variant ("internal implementation detail of
    /// TryGracefulRestart") that anybody holding a Job can send: stop the process if there is one, then start afresh
    RawContinue,
    /// re-entrancy: a marker closure (`run`, or `run_async` that first takes `async_ms`) which, *on the job task*, sends
    /// `inner` to its own job through a clone of the handle (not awaiting the ticket: that would be a legitimate
    /// deadlock) and hands the ticket to `inner.waiters` waiter tasks. The inner control's id is `inner_id(own id)`.
    RunSend { async_ms: Option<u64>, inner: Box<Step> },
    /// `job.control(Control::Delete)`: the bare variant behind delete() / delete_now(), sent by hand at normal priority
    /// and without the Stop that those put in front: the job ends where it stands
    RawDelete,
    /// `job.control(Control::NextEnding)`: the variant behind to_wait(), sent by hand - at *normal* priority
    RawNextEnding,
}

impl Op {
    pub fn name(&self) -> &'static str {
        match self {
            Op::Start => "start",
            Op::Stop => "stop",
            Op::Restart => "restart",
            Op::TryRestart => "try_restart",
            Op::StopSig { .. } => "stop_with_signal",
            Op::RestartSig { .. } => "restart_with_signal",
            Op::TryRestartSig { .. } => "try_restart_with_signal",
            Op::Signal { .. } => "signal",
            Op::ToWait => "to_wait",
            Op::Delete => "delete",
            Op::DeleteNow => "delete_now",
            Op::Run => "run",
            Op::RunAsync { .. } => "run_async",
            Op::RunStall { .. } => "run",
            Op::SetHook { .. } => "set_spawn_hook",
            Op::UnsetHook => "unset_spawn_hook",
            Op::SetErr { .. } => "set_error_handler",
            Op::UnsetErr => "unset_error_handler",
            Op::RawContinue => "control(ContinueTryGracefulRestart)",
            Op::RawDelete => "control(Delete)",
            Op::RawNextEnding => "control(NextEnding)",
            Op::RunSend { async_ms: None, .. } => "run",
            Op::RunSend { .. } => "run_async",
        }
    }
    /// 0 normal, 1 high, 2 urgent
    pub fn prio(&self) -> u8 {
        match self {
            Op::ToWait => 1,
            Op::DeleteNow => 2,
            _ => 0,
        }
    }
    pub fn is_marker(&self) -> bool {
        matches!(self, Op::Run | Op::RunAsync { .. } | Op::RunStall { .. } | Op::RunSend { .. })
    }
    /// resolves at the next end of the process (at once if none is running)
    pub fn waits_for_end(&self) -> bool {
        matches!(self, Op::ToWait | Op::RawNextEnding)
    }
    /// tells the job to go
    pub fn deletes(&self) -> bool {
        matches!(self, Op::Delete | Op::DeleteNow | Op::RawDelete)
    }
    /// a marker whose control is complete as soon as the closure has been called (no future to await)
    pub fn sync_marker(&self) -> bool {
        matches!(self, Op::Run | Op::RunStall { .. } | Op::RunSend { async_ms: None, .. })
    }
    /// virtual time the job task spends inside this marker's closure
    pub fn marker_ms(&self) -> u64 {
        match self {
            Op::RunAsync { ms } | Op::RunStall { ms } | Op::RunSend { async_ms: Some(ms), .. } => *ms,
            _ => 0,
        }
    }
    pub fn inner(&self) -> Option<&Step> {
        match self {
            Op::RunSend { inner, .. } => Some(inner),
            _ => None,
        }
    }
    pub fn spawn_capable(&self) -> bool {
        matches!(self, Op::Start | Op::Restart | Op::TryRestart | Op::RestartSig { .. } | Op::TryRestartSig { .. } | Op::RawContinue)
    }
    pub fn graceful(&self) -> Option<(i32, u64)> {
        match self {
            Op::StopSig { sig, grace } | Op::RestartSig { sig, grace } | Op::TryRestartSig { sig, grace } => {
                Some((*sig, *grace))
            }
            _ => None,
        }
    }
}

/// what the OS-level signal number must be for a requested number
pub fn expected_os_signal(sig: i32) -> i32 {
    if (1..=31).contains(&sig) {
        sig
    } else {
        15
    }
}

#[derive(Clone, Debug, Serialize, Deserialize, PartialEq, Eq, Hash)]
pub struct Step {
    /// virtual ms slept before this step (0 = no await between this send and the previous one)
    pub gap: u64,
    pub op: Op,
    /// extra tasks awaiting clones of this step's ticket
    pub waiters: u8,
    /// the sender itself awaits the ticket before its next step
    pub inline: bool,
    /// the first extra waiter gives up (drops its ticket clone) after this many ms if still unresolved
    #[serde(default)]
    pub cancel_after: Option<u64>,
    /// the last extra waiter polls its ticket for this many ms, then clones it (an already-polled ticket) and
    /// hands the clone to a fresh task; it keeps (true) or drops (false) the original
    #[serde(default)]
    pub late_clone: Option<(u64, bool)>,
}

#[derive(Clone, Debug, Serialize, Deserialize, PartialEq, Eq, Hash)]
pub struct E1Scn {
    pub family: String,
    pub grouped: bool,
    pub session: bool,
    pub children: Vec<ChildSpec>,
    pub spawn_fail: Vec<u32>,
    pub senders: Vec<Vec<Step>>,
    /// every Job handle is dropped once the senders are done
    pub drop_handles: bool,
}

pub const INNER: u32 = 500_000;

impl E1Scn {
    /// flattened op id: sender * 1000 + step index
    pub fn op_id(sender: usize, step: usize) -> u32 {
        (sender * 1000 + step) as u32
    }
    /// id of the control a `RunSend` marker sends from inside the job task
    pub fn inner_id(id: u32) -> u32 {
        id + INNER
    }
    pub fn op(&self, id: u32) -> &Step {
        if id >= INNER {
            return self.op(id - INNER).op.inner().expect("inner id of a marker that sends nothing");
        }
        &self.senders[(id / 1000) as usize][(id % 1000) as usize]
    }
    pub fn n_ops(&self) -> usize {
        self.senders.iter().map(|s| s.len()).sum()
    }
    /// every control of the scenario, those sent from inside closures included: (id, sender, step index, step)
    pub fn all_ops(&self) -> Vec<(u32, usize, usize, &Step)> {
        let mut v = Vec::new();
        for (si, steps) in self.senders.iter().enumerate() {
            for (i, st) in steps.iter().enumerate() {
                v.push((Self::op_id(si, i), si, i, st));
                if let Some(inner) = st.op.inner() {
                    v.push((Self::inner_id(Self::op_id(si, i)), si, i, inner));
                }
            }
        }
        v
    }
    pub fn has_reentrant(&self) -> bool {
        self.senders.iter().flatten().any(|s| s.op.inner().is_some())
    }
    pub fn has_faults(&self) -> bool {
        !self.spawn_fail.is_empty() || self.children.iter().any(|c| c.fail_kill || c.fail_signal || c.fail_wait)
    }
}

// ------------------------------------------------------------------------------------------
// execution

fn state_kind(s: &CommandState) -> StateKind {
    match s {
        CommandState::Pending => StateKind::Pending,
        CommandState::Running { .. } => StateKind::Running,
        CommandState::Finished { status, .. } => StateKind::Finished(end_code(*status)),
    }
}

pub fn end_code(e: watchexec_events::ProcessEnd) -> i32 {
    use watchexec_events::ProcessEnd::*;
    match e {
        Success => 0,
        ExitError(c) => c.get() as i32,
        ExitSignal(s) => {
            1000 + match s.to_nix() {
                Some(n) => n as i32,
                None => -1,
            }
        }
        ExitStop(_) => 2000,
        Exception(_) => 3000,
        Continued => 4000,
    }
}

fn probe(ctx: &JobTaskContext<'_>) -> (StateKind, StateKind) {
    (state_kind(ctx.current), ctx.previous.map(state_kind).unwrap_or(StateKind::None))
}

fn sig_of(n: i32) -> Signal {
    Signal::from(n)
}

pub fn issue(job: &Job, op: &Op, id: u32, jobno: u8) -> Ticket {
    // (u64::MAX stands for Duration::MAX: "wait for ever")
    let g = |ms: u64| if ms == u64::MAX { Duration::MAX } else { Duration::from_millis(ms) };
    match op {
        Op::Start => job.start(),
        Op::Stop => job.stop(),
        Op::Restart => job.restart(),
        Op::TryRestart => job.try_restart(),
        Op::RawContinue => job.control(watchexec_supervisor::job::Control::ContinueTryGracefulRestart),
        Op::RawDelete => job.control(watchexec_supervisor::job::Control::Delete),
        Op::RawNextEnding => job.control(watchexec_supervisor::job::Control::NextEnding),
        Op::StopSig { sig, grace } => job.stop_with_signal(sig_of(*sig), g(*grace)),
        Op::RestartSig { sig, grace } => job.restart_with_signal(sig_of(*sig), g(*grace)),
        Op::TryRestartSig { sig, grace } => job.try_restart_with_signal(sig_of(*sig), g(*grace)),
        Op::Signal { sig } => job.signal(sig_of(*sig)),
        Op::ToWait => job.to_wait(),
        Op::Delete => job.delete(),
        Op::DeleteNow => job.delete_now(),
        Op::Run => job.run(move |ctx| {
            let (cur, prev) = probe(ctx);
            log(Ev::MarkerStart { op: id, cur, prev });
        }),
        Op::RunStall { ms } => {
            let ms = *ms;
            job.run(move |ctx| {
                let (cur, prev) = probe(ctx);
                log(Ev::MarkerStart { op: id, cur, prev });
                crate::ctx::stall_current_task(ms);
            })
        }
        Op::RunAsync { ms } => {
            let ms = *ms;
            job.run_async(move |ctx| {
                let (cur, prev) = probe(ctx);
                log(Ev::MarkerStart { op: id, cur, prev });
                Box::new(async move {
                    if ms > 0 {
                        sleep_ms(ms).await;
                    }
                    log(Ev::MarkerEnd { op: id });
                })
            })
        }
        Op::SetHook { async_ms: None } => job.set_spawn_hook(move |cmd, ctx| {
            let (cur, prev) = probe(ctx);
            let n = next_hook_no(jobno);
            log(Ev::HookCall { job: jobno, n, cur, prev });
            cmd.command_mut().env("SIM_HOOK", id.to_string());
        }),
        Op::SetHook { async_ms: Some(ms) } => {
            let ms = *ms;
            job.set_spawn_async_hook(move |cmd, ctx| {
                let (cur, prev) = probe(ctx);
                let n = next_hook_no(jobno);
                log(Ev::HookCall { job: jobno, n, cur, prev });
                cmd.command_mut().env("SIM_HOOK", id.to_string());
                Box::new(async move {
                    if ms > 0 {
                        sleep_ms(ms).await;
                    }
                    log(Ev::HookEnd { job: jobno, n });
                })
            })
        }
        Op::UnsetHook => job.unset_spawn_hook(),
        Op::SetErr { async_ms: None } => job.set_error_handler(move |err| {
            let n = next_err_no(jobno);
            log(Ev::JobErr { job: jobno, n, msg: err.get().map(|e| e.to_string()).unwrap_or_default() });
        }),
        Op::SetErr { async_ms: Some(ms) } => {
            let ms = *ms;
            job.set_async_error_handler(move |err| {
                let n = next_err_no(jobno);
                log(Ev::JobErr { job: jobno, n, msg: err.get().map(|e| e.to_string()).unwrap_or_default() });
                Box::new(async move {
                    if ms > 0 {
                        sleep_ms(ms).await;
                    }
                })
            })
        }
        Op::UnsetErr => job.unset_error_handler(),
        Op::RunSend { async_ms, inner } => {
            let (inner, me, ms) = (inner.clone(), job.clone(), *async_ms);
            let iid = E1Scn::inner_id(id);
            // (what the closure does once it is on the job task: one atomic step, logged then queued)
            let send = move |me: &Job| {
                log(Ev::CtlSend { job: jobno, sender: 200 + (id / 1000) as u8, op: iid, what: inner.op.name() });
                let ticket = issue(me, &inner.op, iid, jobno);
                for w in 0..inner.waiters {
                    tokio::spawn(waiter(ticket.clone(), iid, w));
                }
            };
            match ms {
                None => job.run(move |ctx| {
                    let (cur, prev) = probe(ctx);
                    log(Ev::MarkerStart { op: id, cur, prev });
                    send(&me);
                }),
                Some(ms) => job.run_async(move |ctx| {
                    let (cur, prev) = probe(ctx);
                    log(Ev::MarkerStart { op: id, cur, prev });
                    Box::new(async move {
                        if ms > 0 {
                            sleep_ms(ms).await;
                        }
                        send(&me);
                        drop(me);
                        log(Ev::MarkerEnd { op: id });
                    })
                }),
            }
        }
    }
}

thread_local! {
    static HOOK_NO: std::cell::Cell<u32> = const { std::cell::Cell::new(0) };
    static ERR_NO: std::cell::Cell<u32> = const { std::cell::Cell::new(0) };
}
fn next_hook_no(_job: u8) -> u32 {
    HOOK_NO.with(|c| {
        let v = c.get();
        c.set(v + 1);
        v
    })
}
fn next_err_no(_job: u8) -> u32 {
    ERR_NO.with(|c| {
        let v = c.get();
        c.set(v + 1);
        v
    })
}
pub fn reset_counters() {
    HOOK_NO.with(|c| c.set(0));
    ERR_NO.with(|c| c.set(0));
}

pub async fn waiter(ticket: Ticket, op: u32, w: u8) {
    match tokio::time::timeout(Duration::from_millis(HOUR_MS), ticket).await {
        Ok(()) => log(Ev::Resolved { op, waiter: w }),
        Err(_) => log(Ev::Hung { op, waiter: w }),
    }
}

/// a waiter that is cancelled (its ticket clone dropped) after `ms` if the ticket has not resolved by then
pub async fn cancelling_waiter(ticket: Ticket, op: u32, w: u8, ms: u64) {
    match tokio::time::timeout(Duration::from_millis(ms), ticket).await {
        Ok(()) => log(Ev::Resolved { op, waiter: w }),
        Err(_) => log(Ev::Note { what: "waiter-cancelled", a: op as i64, b: w as i64 }),
    }
}

/// polls its ticket for `ms`; if still pending, clones the (already polled) ticket into a new waiter task
pub async fn late_cloning_waiter(mut ticket: Ticket, op: u32, w: u8, ms: u64, keep: bool) {
    match tokio::time::timeout(Duration::from_millis(ms), &mut ticket).await {
        Ok(()) => log(Ev::Resolved { op, waiter: w }),
        Err(_) => {
            let late = tokio::spawn(waiter(ticket.clone(), op, 100 + w));
            log(Ev::Note { what: "late-clone", a: op as i64, b: keep as i64 });
            if keep {
                waiter(ticket, op, w).await;
            } else {
                drop(ticket);
            }
            let _ = late.await;
        }
    }
}

pub async fn sender_task(si: usize, steps: Vec<Step>, job: Job, jobno: u8) {
    let mut handles = Vec::new();
    for (i, st) in steps.iter().enumerate() {
        if st.gap > 0 {
            sleep_ms(st.gap).await;
        }
        let id = E1Scn::op_id(si, i);
        log(Ev::CtlSend { job: jobno, sender: si as u8, op: id, what: st.op.name() });
        let ticket = issue(&job, &st.op, id, jobno);
        for w in 0..st.waiters {
            match (w, st.cancel_after, st.late_clone) {
                (0, Some(ms), _) => handles.push(tokio::spawn(cancelling_waiter(ticket.clone(), id, w, ms))),
                (w, _, Some((ms, keep))) if w + 1 == st.waiters => handles.push(tokio::spawn(late_cloning_waiter(ticket.clone(), id, w, ms, keep))),
                _ => handles.push(tokio::spawn(waiter(ticket.clone(), id, w))),
            }
        }
        if st.inline {
            waiter(ticket, id, 255).await;
        }
    }
    drop(job);
    log(Ev::Note { what: "sender-done", a: si as i64, b: 0 });
    for h in handles {
        let _ = h.await;
    }
}

async fn e1_root(scn: E1Scn) {
    reset_counters();
    with_run(|r| {
        r.world.ensure_job(0);
        r.world.specs[0] = if scn.children.is_empty() { vec![ChildSpec::default()] } else { scn.children.clone() };
        r.world.spawn_fail[0] = scn.spawn_fail.clone();
    });
    let (job, handle) = start_job(sim_command(0, scn.grouped, scn.session));
    let monitor = tokio::spawn(async move {
        let res = handle.await;
        log(Ev::TaskEnd { job: 0, panicked: res.is_err() });
    });
    let mut senders = Vec::new();
    for (si, steps) in scn.senders.iter().enumerate() {
        senders.push(tokio::spawn(sender_task(si, steps.clone(), job.clone(), 0)));
    }
    let keep = if scn.drop_handles {
        drop(job);
        None
    } else {
        Some(job)
    };
    // senders finish when all their waiters have resolved or hit the 1 h watchdog
    for s in senders {
        let _ = s.await;
    }
    // quiescence: let every timer in the system run out
    sleep_ms(2 * HOUR_MS).await;
    finalize_world();
    if let Some(job) = &keep {
        log(Ev::Note { what: "job-dead-at-end", a: job.is_dead() as i64, b: 0 });
    }
    log(Ev::Note { what: "task-finished-at-end", a: monitor.is_finished() as i64, b: 0 });
    drop(keep);
}

pub fn execute(scn: &E1Scn, policy: Policy, sched_seed: u64) -> RunOut {
    crate::child::install_interposer();
    let scn = scn.clone();
    run_sim(policy, sched_seed, SimOpts { enable_io: false }, move || e1_root(scn))
}

// ------------------------------------------------------------------------------------------
// generation

pub const SIG_POOL: [i32; 29] =
    [15, 1, 2, 3, 10, 12, 4, 5, 6, 7, 8, 11, 13, 14, 16, 17, 18, 19, 20, 21, 22, 23, 24, 25, 26, 27, 28, 29, 30];
pub const DURS: [u64; 8] = [0, 1, 2, 5, 10, 50, 100, 1000];

pub struct SigAlloc {
    next: usize,
}
impl SigAlloc {
    pub fn new() -> Self {
        Self { next: 0 }
    }
    /// a signal number not yet used in this scenario (falls back to reuse when the pool is empty)
    pub fn fresh(&mut self) -> i32 {
        let s = SIG_POOL[self.next % SIG_POOL.len()];
        self.next += 1;
        s
    }
    pub fn exhausted(&self) -> bool {
        self.next > SIG_POOL.len()
    }
}

pub fn child_class(class: u64, rng: &mut Rng) -> ChildSpec {
    let d = *rng.pick(&DURS[..7]);
    match class {
        // runs until signalled, dies at once
        0 => ChildSpec { on_signal: SigReact::Exit(0), ..Default::default() },
        // dies some delay after a signal
        1 => ChildSpec { on_signal: SigReact::Exit(d), ..Default::default() },
        // ignores signals
        2 => ChildSpec { on_signal: SigReact::Ignore, ..Default::default() },
        // exits by itself after d, reacts to signals at once
        3 => ChildSpec { self_exit: Some(d), code: rng.below(3) as i32, on_signal: SigReact::Exit(0), ..Default::default() },
        // exits by itself after d, ignores signals
        4 => ChildSpec { self_exit: Some(d), code: rng.below(3) as i32, on_signal: SigReact::Ignore, ..Default::default() },
        // exits immediately
        _ => ChildSpec { self_exit: Some(0), code: rng.below(2) as i32, ..Default::default() },
    }
}

pub fn random_op(rng: &mut Rng, sigs: &mut SigAlloc, weights: &OpWeights) -> Op {
    let total: u64 = weights.0.iter().sum();
    let mut x = rng.below(total.max(1));
    let mut k = 0;
    for (i, w) in weights.0.iter().enumerate() {
        if x < *w {
            k = i;
            break;
        }
        x -= w;
    }
    let grace = *rng.pick(&DURS[..7]);
    match k {
        0 => Op::Start,
        1 => Op::Stop,
        2 => Op::Restart,
        3 => {
            if rng.chance(1, 6) {
                Op::RawContinue
            } else {
                Op::TryRestart
            }
        }
        4 => Op::StopSig { sig: sigs.fresh(), grace },
        5 => Op::RestartSig { sig: sigs.fresh(), grace },
        6 => Op::TryRestartSig { sig: sigs.fresh(), grace },
        7 => Op::Signal { sig: if rng.chance(1, 5) { 9 } else { sigs.fresh() } },
        8 => {
            if rng.chance(1, 8) {
                Op::RawNextEnding
            } else {
                Op::ToWait
            }
        }
        9 => {
            if rng.chance(1, 5) {
                Op::RawDelete
            } else {
                Op::Delete
            }
        }
        10 => Op::DeleteNow,
        11 => {
            if weights.1 && rng.chance(1, 6) {
                Op::RunStall { ms: *rng.pick(&[1u64, 5, 50, 100]) }
            } else {
                Op::Run
            }
        }
        12 => Op::RunAsync { ms: *rng.pick(&DURS[..6]) },
        13 => Op::SetHook { async_ms: if rng.chance(1, 2) { None } else { Some(*rng.pick(&DURS[..5])) } },
        14 => Op::UnsetHook,
        15 => Op::SetErr { async_ms: if rng.chance(1, 2) { None } else { Some(*rng.pick(&DURS[..5])) } },
        16 => Op::UnsetErr,
        _ => {
            // a closure that sends a control to its own job (never another such closure: one level)
            let mut w2 = OpWeights(weights.0, false);
            w2.0[17] = 0;
            if w2.0.iter().sum::<u64>() == 0 {
                w2.0[0] = 1;
            }
            let inner = random_op(rng, sigs, &w2);
            let waiters = if rng.chance(1, 2) { rng.range(1, 2) as u8 } else { 0 };
            Op::RunSend {
                async_ms: if rng.chance(1, 2) { None } else { Some(*rng.pick(&DURS[..6])) },
                inner: Box::new(Step { gap: 0, op: inner, waiters, inline: false, cancel_after: None, late_clone: None }),
            }
        }
    }
}

/// weights for the 18 op kinds (swarm: some set to 0 per run)
pub struct OpWeights(pub [u64; 18], pub bool);

impl OpWeights {
    pub fn swarm(rng: &mut Rng) -> Self {
        let base = [8, 5, 4, 3, 6, 4, 4, 3, 5, 1, 1, 8, 3, 2, 1, 2, 1, 3];
        let mut w = base;
        for x in w.iter_mut() {
            if rng.chance(1, 4) {
                *x = 0;
            }
        }
        if w.iter().sum::<u64>() == 0 {
            w = base;
        }
        OpWeights(w, false)
    }
}

pub struct GenCfg {
    /// slow-node fault: some markers stall the job task
    pub stalls: bool,
    pub faults: bool,
    pub max_ops: u64,
    pub max_senders: u64,
    pub allow_drop: bool,
    /// slow-death fault: some processes die only some time after a successful kill
    pub kill_lag: bool,
}

pub fn gen_random(rng: &mut Rng, cfg: &GenCfg) -> E1Scn {
    let mut sigs = SigAlloc::new();
    let mut weights = OpWeights::swarm(rng);
    weights.1 = cfg.stalls && rng.chance(1, 3);
    let n_senders = rng.range(1, cfg.max_senders);
    // one scenario in 25 is a long history (what only shows at the Nth repetition): ten times the usual length, and
    // usually without the controls that end the job
    let long = rng.chance(1, 25);
    let n_ops = if long { rng.range(cfg.max_ops * 4, cfg.max_ops * 10) } else { rng.range(1, cfg.max_ops) };
    if long && rng.chance(2, 3) {
        weights.0[9] = 0;
        weights.0[10] = 0;
        if weights.0.iter().sum::<u64>() == 0 {
            weights.0[0] = 1;
        }
    }
    let style = rng.below(4); // 0 burst, 1 settled, 2 mixed small gaps, 3 mixed
    let mut senders: Vec<Vec<Step>> = (0..n_senders).map(|_| Vec::new()).collect();
    for _ in 0..n_ops {
        let s = rng.below(n_senders) as usize;
        let gap = match style {
            0 => 0,
            1 => 2000 + rng.below(3) * 1000,
            2 => *rng.pick(&DURS[..5]),
            _ => {
                if rng.chance(1, 2) {
                    0
                } else {
                    *rng.pick(&DURS)
                }
            }
        };
        let op = random_op(rng, &mut sigs, &weights);
        let waiters = if rng.chance(1, 3) { rng.range(1, 3) as u8 } else { (rng.chance(1, 2)) as u8 };
        let inline = rng.chance(1, 5);
        let cancel_after = if waiters >= 2 && rng.chance(1, 4) { Some(*rng.pick(&[0u64, 1, 5, 50])) } else { None };
        let late_clone = if waiters >= 1 && rng.chance(1, 5) { Some((*rng.pick(&[0u64, 1, 5, 50]), rng.chance(1, 2))) } else { None };
        senders[s].push(Step { gap, op, waiters, inline, cancel_after, late_clone });
    }
    let n_children = rng.range(1, 4);
    let mut children = Vec::new();
    for _ in 0..n_children {
        let mut c = child_class(rng.below(6), rng);
        if cfg.faults {
            if rng.chance(1, 8) {
                c.fail_signal = true;
            }
            if rng.chance(1, 10) {
                c.fail_kill = true;
            }
            if rng.chance(1, 12) {
                c.fail_wait = true;
            }
            if rng.chance(1, 15) {
                c.wait_fail_after = Some(*rng.pick(&[1u64, 5, 50, 500]));
            }
        }
        if cfg.kill_lag && rng.chance(1, 4) {
            c.kill_lag = *rng.pick(&[1u64, 50, 1000, 6000, 60_000]);
        }
        children.push(c);
    }
    let mut spawn_fail = Vec::new();
    if cfg.faults && rng.chance(1, 3) {
        spawn_fail.push(rng.below(4) as u32);
        if rng.chance(1, 4) {
            spawn_fail.push(rng.below(6) as u32);
        }
        spawn_fail.sort();
        spawn_fail.dedup();
    }
    E1Scn {
        family: "random".into(),
        grouped: rng.chance(1, 4),
        session: rng.chance(1, 8),
        children,
        spawn_fail,
        senders,
        drop_handles: cfg.allow_drop && rng.chance(1, 6),
    }
}

// ------------------------------------------------------------------------------------------
// history digest shared by the E1 oracles

#[derive(Default, Debug, Clone)]
pub struct ChildRec {
    pub job: u8,
    pub spawn_t: u64,
    pub spawn_seq: u32,
    pub hook_env: i64,
    pub signals: Vec<(u64, u32, i32, bool)>, // t, seq, sig, delivered
    pub kills: Vec<(u64, u32)>,
    pub exit: Option<(u64, i32)>,
    pub reaped: Option<(u64, u32, i32)>,
    pub dropped: Option<(u64, u32, bool, bool)>, // t, seq, reaped, in_shutdown
    pub faults: u32,
    /// of which: wait() failures (they do not end a control by themselves)
    pub wait_faults: u32,
}

#[derive(Default, Debug)]
pub struct Digest {
    pub send: std::collections::BTreeMap<u32, (u64, u32)>, // op -> t, seq
    pub resolved: std::collections::BTreeMap<u32, Vec<(u8, u64, u32)>>, // op -> (waiter, t, seq)
    pub hung: Vec<(u32, u8, u64)>,
    pub marker_start: std::collections::BTreeMap<u32, Vec<(u64, u32, StateKind, StateKind)>>,
    pub marker_end: std::collections::BTreeMap<u32, Vec<(u64, u32)>>,
    pub children: Vec<ChildRec>,
    pub spawn_fails: Vec<(u64, u32, u32)>, // t, seq, attempt
    pub hooks: Vec<(u64, u32, u32)>,
    pub errs: Vec<(u64, u32, String)>,
    pub task_end: Option<(u64, u32, bool)>,
    /// virtual instant at which the scenario was over (the horizon of what can be judged)
    pub run_end: u64,
    pub handles_dropped: Option<(u64, u32)>,
}

pub fn digest(out: &RunOut) -> Digest {
    let mut d = Digest::default();
    let mut scenario_over = false;
    for r in &out.hist {
        match &r.ev {
            // the root drops its own Job handle after the scenario is over; what happens then is not judged
            Ev::Note { what: "task-finished-at-end", .. } => {
                scenario_over = true;
                d.run_end = r.t;
            }
            _ if scenario_over => {}
            Ev::CtlSend { op, .. } => {
                d.send.insert(*op, (r.t, r.seq));
            }
            Ev::Resolved { op, waiter } => d.resolved.entry(*op).or_default().push((*waiter, r.t, r.seq)),
            Ev::Hung { op, waiter } => d.hung.push((*op, *waiter, r.t)),
            Ev::MarkerStart { op, cur, prev } => {
                d.marker_start.entry(*op).or_default().push((r.t, r.seq, cur.clone(), prev.clone()))
            }
            Ev::MarkerEnd { op } => d.marker_end.entry(*op).or_default().push((r.t, r.seq)),
            Ev::Spawn { job, child, hook_env, .. } => {
                while d.children.len() <= *child as usize {
                    d.children.push(ChildRec::default());
                }
                let c = &mut d.children[*child as usize];
                c.job = *job;
                c.spawn_t = r.t;
                c.spawn_seq = r.seq;
                c.hook_env = *hook_env;
            }
            Ev::SpawnFail { attempt, .. } => d.spawn_fails.push((r.t, r.seq, *attempt)),
            Ev::Signal { child, sig, delivered } => {
                d.children[*child as usize].signals.push((r.t, r.seq, *sig, *delivered))
            }
            Ev::SignalFail { child, .. } | Ev::KillFail { child } => d.children[*child as usize].faults += 1,
            Ev::WaitFail { child } => {
                d.children[*child as usize].faults += 1;
                d.children[*child as usize].wait_faults += 1;
            }
            Ev::Kill { child } => d.children[*child as usize].kills.push((r.t, r.seq)),
            Ev::Exit { child, status } => d.children[*child as usize].exit = Some((r.t, *status)),
            Ev::Reaped { child, status } => d.children[*child as usize].reaped = Some((r.t, r.seq, *status)),
            Ev::Dropped { child, reaped, in_shutdown } => {
                d.children[*child as usize].dropped = Some((r.t, r.seq, *reaped, *in_shutdown))
            }
            Ev::HookCall { n, .. } => d.hooks.push((r.t, r.seq, *n)),
            Ev::JobErr { msg, .. } => d.errs.push((r.t, r.seq, msg.clone())),
            Ev::TaskEnd { panicked, .. } => d.task_end = Some((r.t, r.seq, *panicked)),
            Ev::Note { what: "sender-done", .. } => d.handles_dropped = Some((r.t, r.seq)),
            _ => {}
        }
    }
    d
}
