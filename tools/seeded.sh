#!/usr/bin/env bash
# Run every claimed quick check against each independently seeded change: apply seeded/<id>/patch.diff to /repo's
# working tree, run, undo. usage: tools/seeded.sh [pattern]     results -> seeded/RESULTS.md (appended per run)
set -u
HERE="$(cd "$(dirname "${BASH_SOURCE[0]}")/.." && pwd)"
PAT="${1:-}"
CLAIMED="C01 C02 C04 C05 C06 C07 C08 C09 C10 C13 C15"
if ! git -C /repo diff --quiet; then echo "refusing: /repo working tree is not clean"; exit 2; fi
for d in "$HERE"/seeded/*${PAT}*/; do
  id="$(basename "$d")"; [ -f "$d/patch.diff" ] || continue
  # (patches were written against the tree of their day; hooks added to /repo since may sit in their context lines)
  if ! git -C /repo apply "$d/patch.diff" 2>/dev/null && ! git -C /repo apply -C1 "$d/patch.diff" 2>/dev/null; then echo "$id: APPLY-FAILED"; continue; fi
  alarmed=""; silent=""; sigs=""
  for c in $CLAIMED; do
    o="$("$HERE/wx" check "$c" --tier quick --no-evidence 2>&1)"; rc=$?
    if [ $rc = 1 ]; then alarmed="$alarmed $c"; sigs="$sigs; $c: $(echo "$o" | grep -m1 'signature=' | sed 's/.*signature="\([^"]*\)".*/\1/')";
    elif [ $rc = 0 ]; then silent="$silent $c"; else silent="$silent $c(rc=$rc)"; fi
  done
  git -C /repo checkout -- .
  echo "| $id |$alarmed |$silent | ${sigs#; } |" | tee -a "$HERE/seeded/.results.tmp"
done
git -C /repo checkout -- . 2>/dev/null
"$HERE/wx" setup >/dev/null 2>&1
