#!/usr/bin/env bash
# Determinism proof on a large sample: for every claimed check, run N simulations in separate processes with
# 1, 5 and 16 worker threads and compare the order-independent digest over (run index, history hash, schedule hash);
# then the in-process self-test (every run twice on one thread and once on another).
# usage: tools/determinism.sh [N]   (default 20000)
set -u
HERE="$(cd "$(dirname "${BASH_SOURCE[0]}")/.." && pwd)"
N="${1:-20000}"
BIN="$HERE/sim/target/release/wxsim"
"$HERE/wx" setup >/dev/null || exit 2
bad=0
for p in C01 C02 C04 C05 C06 C07 C08 C09 C10 C13 C15; do
  d1=$("$BIN" check $p --runs $N --threads 1 --no-evidence | grep -o 'digest [0-9a-f]*')
  d5=$("$BIN" check $p --runs $N --threads 5 --no-evidence | grep -o 'digest [0-9a-f]*')
  d16=$("$BIN" check $p --runs $N --threads 16 --no-evidence | grep -o 'digest [0-9a-f]*')
  st=$("$BIN" selftest determinism $p --runs $((N/10)) | tail -1)
  if [ "$d1" = "$d5" ] && [ "$d5" = "$d16" ] && echo "$st" | grep -q "mismatches=0"; then echo "$p ok  $d1  ($st)"; else echo "$p MISMATCH 1:$d1 5:$d5 16:$d16 $st"; bad=1; fi
done
exit $bad
