#!/usr/bin/env bash
# Reach measurement (not a check): line/region coverage of the anchored watchexec sources under the quick tier of all
# checks, using an instrumented nightly build in a scratch target dir. usage: tools/coverage.sh [show <file>]
set -u
HERE="$(cd "$(dirname "${BASH_SOURCE[0]}")/.." && pwd)"
T=/tmp/wx-cov; mkdir -p $T/prof
TOOLS="$(dirname "$(rustup which --toolchain nightly rustc)")/../lib/rustlib/x86_64-unknown-linux-gnu/bin"
export CARGO_NET_OFFLINE=true
if [ "${1:-}" != "show" ]; then
  rm -f $T/prof/*
  ( cd "$HERE/sim" && LLVM_PROFILE_FILE=$T/build-%p-%m.profraw RUSTFLAGS="--cfg watchexec_verif -C instrument-coverage" cargo +nightly build --release --offline --target-dir $T/target 2>&1 | tail -1 ) || exit 2
  rm -f $T/build-*.profraw
  mkdir -p $T/verif; cp "$HERE/known_findings.json" $T/verif/
  for p in C01 C02 C04 C05 C06 C07 C08 C09 C10 C13 C15; do
    VERIF_DIR=$T/verif LLVM_PROFILE_FILE=$T/prof/$p-%p.profraw $T/target/release/wxsim check $p --tier quick --no-evidence | tail -1
  done
  "$TOOLS/llvm-profdata" merge -sparse $T/prof/*.profraw -o $T/all.profdata || exit 2
fi
FILES="/repo/crates/supervisor/src/job /repo/crates/supervisor/src/flag.rs /repo/crates/lib/src/action /repo/crates/lib/src/sources /repo/crates/lib/src/watchexec.rs /repo/crates/lib/src/config.rs /repo/crates/lib/src/changeable.rs /repo/crates/lib/src/late_join_set.rs /repo/crates/cli/src/config.rs"
if [ "${1:-}" = "show" ]; then
  "$TOOLS/llvm-cov" show $T/target/release/wxsim -instr-profile=$T/all.profdata "$2" --show-line-counts-or-regions 2>/dev/null
else
  "$TOOLS/llvm-cov" report $T/target/release/wxsim -instr-profile=$T/all.profdata $FILES 2>/dev/null | cut -c1-150 | tee "$HERE/evidence/coverage.txt"
fi
