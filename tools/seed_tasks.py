#!/usr/bin/env python3
"""Write the task file of each sub-agent of a seeded batch into its scratch worktree (/tmp/wt-<batch>-<prop><suffix>/SEEDED/TASK.md).
The task contains the property text, the theme of the batch and the list of mechanisms already used for that property -
nothing else from /verif.   usage: seed_tasks.py <batch> <suffix> <theme> <prop> [<prop> ...]"""
import json, glob, sys

THEMES = {
 'reentrancy': """The change must be of this kind: it only misbehaves when some part of watchexec's *public API is used from
inside one of its own callbacks* (an action handler, a job `run`/`run_async` closure, a spawn hook, an error
handler, a filterer) or *from a second task/handle concurrently with the worker doing related work* - e.g. a
handler that reconfigures, creates/deletes/controls jobs, sends events, or requests a quit while the worker is
in the middle of something; two clones of a handle used at once; a control sent from inside a closure running
on the job task. Code that is fine when each API is used 'from outside, one at a time' but wrong under that
kind of use. (Not a deadlock that every such use would hit at once: it must need a specific combination.)""",
 'rare-api': """The change must be of this kind: it only misbehaves through a *rarely used but public and documented* entry
point, option or value of watchexec's API - something most callers (and the existing tests) never touch, while the
commonly used path keeps working. Look through the public surface of the crates (`pub fn`, `pub enum` variants,
builder / config setters, CLI flags) for the less-travelled ones: alternative constructors and async variants of
handlers, raw control variants, accessors and iterators on action / job / config objects, optional settings and
their unusual-but-legal values, secondary signal / priority / watcher kinds, and so on. The bug must sit in (or be
reachable only through) such a path, and must break the property above when that path is used in an otherwise
ordinary program.""",
 'boundary': """The change must be of this kind: an *arithmetic or boundary* mistake - an off-by-one, a `<` for a `<=`, a
saturating / wrapping / truncating conversion, a zero or maximal value treated specially, a unit mix-up, a
comparison of instants or counters that is wrong exactly at equality, an index or length that is wrong only for
the first / last / only element. It must be invisible for the values ordinary use and the existing tests
produce, and break the property above for particular (legal) values or when two instants / counts coincide.""",
 'state-carryover': """The change must be of this kind: *state carried over from one phase to the next* - something that is set,
cached, armed or remembered during one run / batch / pass / control and is not (or wrongly) cleared, re-armed or
refreshed when the next one begins, or is cleared too early. It must only show when a particular earlier phase
is followed by a particular later one (e.g. a failed attempt followed by a success, a graceful operation
followed by a plain one, a reconfiguration between two otherwise identical steps).""",
}

T = """# Task: write one realistic *breaking change* to watchexec (for testing a verification tool)

You work ONLY inside the git worktree `{wt}` (a scratch checkout of the watchexec repository). Do not read or
write `/repo`, `/verif` or any other checkout; do not use the network (there is none: always pass `--offline`
to cargo and set `CARGO_NET_OFFLINE=true`). Use `CARGO_TARGET_DIR={wt}/target` for every cargo command.
Code under `#[cfg(watchexec_verif)]` is test instrumentation that is compiled out: ignore it, do not modify
it, and do not make your change depend on it.

## The property your change must break

**{pid} - {title}**

{statement}

It is meant to hold: {quant}

Code it is anchored in: {anchors}

## What to produce

A small source change to watchexec (library, supervisor or CLI crates under `crates/`) such that:

1. the workspace still compiles without new warnings, and the existing tests of every crate you touched still
   pass (`cargo test -p <crate> --offline`; for `watchexec-cli` use `--lib` and skip nothing else);
2. the property above is *violated* by the changed code, in a way a user could really hit;
3. it looks like something a maintainer could plausibly write and a reviewer could wave through (a refactor,
   an optimisation, a 'robustness' tweak, a small feature) - not sabotage, no dead giveaways in comments;
4. it needs *something specific* to manifest - a particular interleaving, a fault at a particular point, a
   multi-step sequence of operations, an unusual but legal input or configuration, or two cooperating sites
   that each look fine alone. Ordinary use (and the existing tests) must not expose it at once.

{theme}

Ideas that have already been used for this property - do NOT reuse these mechanisms, find a different one:
{used}

## Demonstration

Write an integration test `crates/<crate>/tests/demo_{short}.rs` (tokio test(s); real child processes such as
`sleep`/`sh -c` are fine; keep it under ~20 s) that PASSES on the unchanged code and FAILS with your change,
deterministically or nearly so (if it depends on timing say how often it fails). Verify both directions
yourself (stash or reverse-apply your change to check the 'passes without' direction).

## Deliverables (all inside `{wt}/SEEDED/`)

* `patch.diff` - `git diff -- crates` of the source change ONLY (without the demo test file; keep the demo
  file untracked so that it does not appear in the diff);
* a copy of the demo test file;
* `agent-notes.md` - what the change is, which clause of the property it breaks, exactly what is needed for it
  to manifest (the sequence / interleaving / fault / input), the crate name and the exact cargo command that
  runs the demo, and the observed results with and without the change.

Leave the worktree with the change applied and the demo file in place. In your final answer give a five-line
summary: files touched, mechanism, what is needed to manifest, crate + demo test name, results both ways.
"""

def main():
    batch, suf, theme = sys.argv[1:4]
    props = {json.loads(l)['id']: json.loads(l) for l in open('/verif/properties.jsonl')}
    used = {}
    for f in sorted(glob.glob('/verif/seeded/*/meta.json')):
        m = json.load(open(f))
        used.setdefault(m['breaks_property'], []).append(m['what'][:220])
    for pid in sys.argv[4:]:
        p = props[pid]
        wt = f'/tmp/wt-{batch}-{pid}{suf}'
        s = T.format(wt=wt, pid=pid, title=p['title'], statement=p['statement'], quant=p['quantifier']['text'],
                     anchors=', '.join(p['anchors'].get('files', [])), theme=THEMES[theme],
                     used='\n'.join(' - ' + u for u in used.get(pid, [])), short=f'{pid}{suf}')
        open(wt + '/SEEDED/TASK.md', 'w').write(s)
        print('wrote', wt + '/SEEDED/TASK.md')

main()
