#!/usr/bin/env bash
# Confirm a sub-agent's seeded change in its scratch worktree: with the change the demo fails and the touched
# crate's existing tests pass; without it the demo passes. usage: confirm_seeded.sh <ID> <crate> <demo-test-name>
set -u
ID=$1; CRATE=$2; DEMO=$3; WT=/tmp/wt-$ID
export CARGO_NET_OFFLINE=true CARGO_TARGET_DIR=$WT/target
cd $WT || exit 2
git diff > /tmp/seeded-$ID.cur.diff
if ! diff -q <(git diff -- crates | grep -v '^index') <(grep -v '^index' SEEDED/patch.diff) >/dev/null; then echo "NOTE: worktree diff differs from SEEDED/patch.diff (using patch.diff)"; git checkout -- crates; git apply SEEDED/patch.diff || exit 2; fi
echo "--- with change: existing tests of $CRATE (demo excluded)"
EXTRA=""; [ "$CRATE" = watchexec-cli ] && EXTRA="--lib"
cargo test -p $CRATE --offline $EXTRA --no-fail-fast -- --skip demo_ 2>&1 | grep -E "^test result|FAILED|error(\[|:)" | head -12
echo "--- with change: demo (expect FAIL)"
cargo test -p $CRATE --offline --test $DEMO 2>&1 | grep -E "^test result|^test .*(ok|FAILED)" | head -8
git apply -R SEEDED/patch.diff || exit 2
echo "--- without change: demo (expect ok)"
cargo test -p $CRATE --offline --test $DEMO 2>&1 | grep -E "^test result|^test .*(ok|FAILED)" | head -8
git apply SEEDED/patch.diff
