#!/usr/bin/env python3
"""Import a confirmed seeded change from its scratch worktree into /verif/seeded/<ID>/ and write meta.json.
usage: import_seeded.py <ID> <property> <theme-text> <what> <needs>     (after tools/confirm_seeded.sh has confirmed it)
Then: tools/seeded.sh <ID> ; tools/import_seeded.py --results <ID> '<alarmed>' '<first signatures>' [note]"""
import json, os, shutil, sys, glob, subprocess

def main():
    if sys.argv[1] == '--results':
        id_, alarmed, sigs = sys.argv[2:5]
        note = sys.argv[5] if len(sys.argv) > 5 else ''
        f = f'/verif/seeded/{id_}/meta.json'
        m = json.load(open(f))
        claimed = "C01 C02 C04 C05 C06 C07 C08 C09 C10 C13 C15".split()
        a = alarmed.split()
        if 'caught_on_first_run_by' not in m:
            m['caught_on_first_run_by'] = ' '.join(a) if a else '(none)'
            m['first_signatures'] = sigs
        m['caught_by'] = a
        m['silent'] = [c for c in claimed if c not in a]
        if note:
            m['note'] = note
        json.dump(m, open(f, 'w'), indent=1)
        return
    id_, prop, theme, what, needs = sys.argv[1:6]
    wt = f'/tmp/wt-{id_}'
    d = f'/verif/seeded/{id_}'
    os.makedirs(d, exist_ok=True)
    shutil.copy(f'{wt}/SEEDED/patch.diff', d)
    for f in glob.glob(f'{wt}/SEEDED/demo_*.rs') + glob.glob(f'{wt}/SEEDED/agent-notes.md'):
        shutil.copy(f, d)
    head = subprocess.run(['git', '-C', '/repo', 'rev-parse', '--short', 'HEAD'], capture_output=True, text=True).stdout.strip()
    m = {
        'id': id_, 'breaks_property': prop, 'what': what, 'needs_to_manifest': needs,
        'origin': f'fresh sub-agent given only the property text, the requirement that the change be {theme}, a list of mechanisms already used by earlier seeded changes to avoid, and a scratch worktree of /repo at {head}',
        'confirmed_by': f'tools/confirm_seeded.sh {id_} <crate> demo_{id_.split("-")[1]}: with the change the existing tests of the touched crate pass and the demo fails; with the change reverted the demo passes',
        'checks_run': 'tools/seeded.sh (patch applied to /repo working tree, all 11 claimed quick checks, patch undone)',
        'note': '',
    }
    json.dump(m, open(f'{d}/meta.json', 'w'), indent=1)
    print('imported', d)

main()
