//! flagsim: the supervisor's `Flag` (crates/supervisor/src/flag.rs, the synchronisation under every
//! `Ticket`) run by real threads under shuttle's seeded schedulers.
//!
//! The wxsim engines run everything on one OS thread, so they explore interleavings at await
//! points only. Watchexec's production runtime is multi-threaded: a waiter can be in the middle of
//! `poll` (between the first check, the registration and the re-check) while another thread is in
//! the middle of `raise`, `clone` or `drop`. This engine puts exactly that code under a scheduler
//! that pre-empts at every Mutex / atomic operation: the source file is taken from /repo's working
//! tree at build time with `std::sync` swapped for `shuttle::sync` (see build.rs), nothing else.
//!
//! One run = one scenario configuration (who waits how, who raises, late clones, cancelled polls,
//! futures migrating between threads) x one schedule drawn by shuttle's seeded random or PCT
//! scheduler. Oracles: every waiter that awaits to completion completes (a lost wake-up is a
//! deadlock, which shuttle reports), never before `raise` was called, and `raised()` is true
//! afterwards.

mod shim_std {
    pub use ::std::*;
    pub mod sync {
        pub use shuttle::sync::*;
    }
}

#[allow(dead_code, unused_imports, clippy::all)]
mod flag {
    include!(concat!(env!("OUT_DIR"), "/flag.rs"));
}

use std::collections::HashSet;
use std::future::Future;
use std::hash::{Hash, Hasher};
use std::pin::Pin;
use std::sync::atomic::{AtomicBool, AtomicU64, Ordering};
use std::sync::{Arc, Mutex};
use std::task::{Context, Poll};
use std::time::Instant;

use flag::Flag;
use serde::{Deserialize, Serialize};
use shuttle::scheduler::{PctScheduler, RandomScheduler, ReplayScheduler};
use shuttle::{Config, FailurePersistence, MaxSteps, Runner};

#[derive(Clone, Copy, Debug, Serialize, Deserialize, PartialEq, Eq, Hash)]
enum W {
    /// awaits a clone to completion
    Await,
    /// polls a clone once, then drops it (a cancelled waiter)
    PollDrop,
    /// polls a clone once, clones it into a new thread that awaits the clone, keeps awaiting the original
    PollCloneKeep,
    /// polls a clone once, clones it into a new thread that awaits the clone, drops the original
    PollCloneDrop,
    /// polls a clone once on one thread, then finishes awaiting it on another (the waker changes)
    Migrate,
    /// reads `raised()` in a loop of bounded length (never blocks)
    Reader,
}

const KINDS: [W; 6] = [W::Await, W::PollDrop, W::PollCloneKeep, W::PollCloneDrop, W::Migrate, W::Reader];

#[derive(Clone, Debug, Serialize, Deserialize, PartialEq, Eq, Hash)]
struct Cfg {
    /// the flag starts raised
    initial: bool,
    /// threads calling raise() (0 only with `initial`)
    raisers: u8,
    waiters: Vec<W>,
    /// waiters await a pair of flags polled in place, as `Ticket` does with (job gone, control done); only the
    /// second one is ever raised
    pair: bool,
}

/// what `Ticket::poll` does with its two flags (messages.rs): both polled in place, ready if either is
struct Pair {
    gone: Flag,
    done: Flag,
}

impl Future for Pair {
    type Output = ();
    fn poll(mut self: Pin<&mut Self>, cx: &mut Context<'_>) -> Poll<()> {
        let gone = Pin::new(&mut self.gone).poll(cx);
        let done = Pin::new(&mut self.done).poll(cx);
        if gone.is_ready() || done.is_ready() {
            Poll::Ready(())
        } else {
            Poll::Pending
        }
    }
}

impl Clone for Pair {
    fn clone(&self) -> Self {
        Pair { gone: self.gone.clone(), done: self.done.clone() }
    }
}

enum Fut {
    One(Flag),
    Two(Pair),
}

impl Fut {
    fn dup(&self) -> Fut {
        match self {
            Fut::One(f) => Fut::One(f.clone()),
            Fut::Two(p) => Fut::Two(p.clone()),
        }
    }
}

impl Future for Fut {
    type Output = ();
    fn poll(self: Pin<&mut Self>, cx: &mut Context<'_>) -> Poll<()> {
        match self.get_mut() {
            Fut::One(f) => Pin::new(f).poll(cx),
            Fut::Two(p) => Pin::new(p).poll(cx),
        }
    }
}

thread_local! {
    /// event log of the current execution (plain std: no scheduling points of its own)
    static LOG: std::cell::RefCell<Option<Arc<Mutex<Vec<(u8, u8)>>>>> = const { std::cell::RefCell::new(None) };
}

fn poll_once(f: &mut Fut) -> bool {
    shuttle::future::block_on(futures::future::poll_fn(|cx| Poll::Ready(Pin::new(&mut *f).poll(cx).is_ready())))
}

fn scenario(cfg: &Cfg, log: &Arc<Mutex<Vec<(u8, u8)>>>) {
    use shuttle::thread;
    let done = Flag::new(cfg.initial);
    let gone = Flag::new(false);
    let raise_called = Arc::new(AtomicBool::new(cfg.initial));
    let mk = |d: &Flag, g: &Flag, pair: bool| if pair { Fut::Two(Pair { gone: g.clone(), done: d.clone() }) } else { Fut::One(d.clone()) };
    let ev = {
        let log = log.clone();
        move |who: u8, what: u8| log.lock().unwrap().push((who, what))
    };
    let mut handles = Vec::new();
    for r in 0..cfg.raisers {
        let (f, rc, ev) = (done.clone(), raise_called.clone(), ev.clone());
        handles.push(thread::spawn(move || {
            rc.store(true, Ordering::SeqCst);
            ev(100 + r, 0);
            f.raise();
            ev(100 + r, 1);
            assert!(f.raised(), "raised() is false right after raise() returned");
        }));
    }
    for (i, w) in cfg.waiters.iter().enumerate() {
        let i = i as u8;
        let mut fut = mk(&done, &gone, cfg.pair);
        let probe = done.clone();
        let (rc, ev) = (raise_called.clone(), ev.clone());
        let finish = move |who: u8, rc: &AtomicBool, probe: &Flag, ev: &dyn Fn(u8, u8)| {
            ev(who, 9);
            assert!(rc.load(Ordering::SeqCst), "a waiter completed before raise() was called");
            assert!(probe.raised(), "a waiter completed but raised() is false");
        };
        match *w {
            W::Await => handles.push(thread::spawn(move || {
                shuttle::future::block_on(fut);
                finish(i, &rc, &probe, &ev);
            })),
            W::PollDrop => handles.push(thread::spawn(move || {
                let ready = poll_once(&mut fut);
                ev(i, if ready { 2 } else { 3 });
                drop(fut);
            })),
            W::PollCloneKeep | W::PollCloneDrop => {
                let keep = *w == W::PollCloneKeep;
                handles.push(thread::spawn(move || {
                    let ready = poll_once(&mut fut);
                    ev(i, if ready { 2 } else { 3 });
                    let late = fut.dup();
                    let (rc2, probe2, ev2) = (rc.clone(), probe.clone(), ev.clone());
                    let h = thread::spawn(move || {
                        shuttle::future::block_on(late);
                        ev2(50 + i, 9);
                        assert!(rc2.load(Ordering::SeqCst), "a late clone completed before raise() was called");
                        assert!(probe2.raised());
                    });
                    if keep {
                        shuttle::future::block_on(fut);
                        finish(i, &rc, &probe, &ev);
                    } else {
                        drop(fut);
                    }
                    h.join().unwrap();
                }));
            }
            W::Migrate => handles.push(thread::spawn(move || {
                let ready = poll_once(&mut fut);
                ev(i, if ready { 2 } else { 3 });
                let h = thread::spawn(move || {
                    shuttle::future::block_on(fut);
                    finish(i, &rc, &probe, &ev);
                });
                h.join().unwrap();
            })),
            W::Reader => handles.push(thread::spawn(move || {
                let mut seen = false;
                for _ in 0..3 {
                    let now = probe.raised();
                    assert!(!(seen && !now), "raised() went back to false");
                    seen = now;
                    thread::yield_now();
                }
                ev(i, if seen { 4 } else { 5 });
                drop(fut);
            })),
        }
    }
    for h in handles {
        h.join().unwrap();
    }
    assert!(done.raised() == (cfg.initial || cfg.raisers > 0));
}

// ------------------------------------------------------------------------------------------

struct Rng(u64);
impl Rng {
    fn next(&mut self) -> u64 {
        self.0 = self.0.wrapping_add(0x9E3779B97F4A7C15);
        let mut z = self.0;
        z = (z ^ (z >> 30)).wrapping_mul(0xBF58476D1CE4E5B9);
        z = (z ^ (z >> 27)).wrapping_mul(0x94D049BB133111EB);
        z ^ (z >> 31)
    }
    fn below(&mut self, n: u64) -> u64 {
        self.next() % n
    }
}

fn gen_cfg(rng: &mut Rng) -> Cfg {
    let initial = rng.below(12) == 0;
    let raisers = if initial { rng.below(2) as u8 } else { 1 + (rng.below(4) == 0) as u8 };
    let n = 1 + rng.below(4) as usize;
    let mut waiters: Vec<W> = (0..n).map(|_| KINDS[rng.below(KINDS.len() as u64) as usize]).collect();
    if !waiters.iter().any(|w| matches!(w, W::Await | W::PollCloneKeep | W::Migrate | W::PollCloneDrop)) {
        waiters[0] = W::Await;
    }
    if raisers == 0 && waiters.len() < 2 {
        // (with a single thread there is nothing to schedule: shuttle's PCT scheduler rejects such a closure)
        waiters.push(W::Await);
    }
    Cfg { initial, raisers, waiters, pair: rng.below(3) == 0 }
}

fn shrink(cfg: &Cfg) -> Vec<Cfg> {
    let mut v = Vec::new();
    for i in 0..cfg.waiters.len() {
        if cfg.waiters.len() + cfg.raisers as usize > 2 && cfg.waiters.len() > 1 {
            let mut c = cfg.clone();
            c.waiters.remove(i);
            v.push(c);
        }
        if cfg.waiters[i] != W::Await {
            let mut c = cfg.clone();
            c.waiters[i] = W::Await;
            v.push(c);
        }
    }
    if cfg.pair {
        let mut c = cfg.clone();
        c.pair = false;
        v.push(c);
    }
    if cfg.raisers > 1 {
        let mut c = cfg.clone();
        c.raisers = 1;
        v.push(c);
    }
    v
}

#[derive(Serialize, Deserialize)]
struct Replay {
    property: String,
    engine: String,
    cfg: Cfg,
    scheduler: String,
    /// shuttle's encoded schedule (scheduler seed-independent: the exact sequence of thread choices)
    schedule: String,
    message: String,
}

fn shuttle_config(dir: Option<&std::path::Path>) -> Config {
    let mut c = Config::new();
    c.failure_persistence = match dir {
        Some(d) => FailurePersistence::File(Some(d.to_path_buf())),
        None => FailurePersistence::None,
    };
    c.max_steps = MaxSteps::FailAfter(100_000);
    c.silence_warnings = true;
    c
}

struct Outcome {
    iterations: u64,
    histories: HashSet<u64>,
    failure: Option<(String, String)>, // (schedule, message)
}

/// `iters` schedules of one configuration under one scheduler; stops at the first failing schedule
fn explore(cfg: &Cfg, pct: bool, seed: u64, iters: usize, scratch: &std::path::Path) -> Outcome {
    let histories = Arc::new(Mutex::new(HashSet::new()));
    let count = Arc::new(AtomicU64::new(0));
    let (h2, c2, cfg2) = (histories.clone(), count.clone(), cfg.clone());
    let dir = scratch.to_path_buf();
    let _ = std::fs::create_dir_all(&dir);
    for e in std::fs::read_dir(&dir).into_iter().flatten().flatten() {
        let _ = std::fs::remove_file(e.path());
    }
    let conf = shuttle_config(Some(&dir));
    let res = std::panic::catch_unwind(std::panic::AssertUnwindSafe(move || {
        let f = move || {
            let log = Arc::new(Mutex::new(Vec::new()));
            scenario(&cfg2, &log);
            let mut h = std::collections::hash_map::DefaultHasher::new();
            log.lock().unwrap().hash(&mut h);
            h2.lock().unwrap().insert(h.finish());
            c2.fetch_add(1, Ordering::Relaxed);
        };
        if pct {
            Runner::new(PctScheduler::new_from_seed(seed, 3, iters), conf).run(f);
        } else {
            Runner::new(RandomScheduler::new_from_seed(seed, iters), conf).run(f);
        }
    }));
    let failure = match res {
        Ok(()) => None,
        Err(p) => {
            let msg = if let Some(s) = p.downcast_ref::<String>() {
                s.clone()
            } else if let Some(s) = p.downcast_ref::<&str>() {
                s.to_string()
            } else {
                "panic".into()
            };
            let mut sched = String::new();
            for e in std::fs::read_dir(&dir).into_iter().flatten().flatten() {
                if let Ok(t) = std::fs::read_to_string(e.path()) {
                    sched = t;
                }
            }
            Some((sched, msg))
        }
    };
    let histories = std::mem::take(&mut *histories.lock().unwrap());
    Outcome { iterations: count.load(Ordering::Relaxed), histories, failure }
}

fn replay_one(cfg: &Cfg, schedule: &str) -> Result<(), String> {
    let cfg2 = cfg.clone();
    let sched = schedule.to_string();
    let res = std::panic::catch_unwind(move || {
        let log = Arc::new(Mutex::new(Vec::new()));
        let conf = shuttle_config(None);
        Runner::new(ReplayScheduler::new_from_encoded(&sched), conf).run(move || scenario(&cfg2, &log));
    });
    match res {
        Ok(()) => Ok(()),
        Err(p) => Err(if let Some(s) = p.downcast_ref::<String>() {
            s.clone()
        } else if let Some(s) = p.downcast_ref::<&str>() {
            s.to_string()
        } else {
            "panic".into()
        }),
    }
}

fn first_line(s: &str) -> String {
    let l = s.lines().find(|l| !l.trim().is_empty()).unwrap_or("");
    let mut l = l.to_string();
    l.truncate(300);
    l
}

fn main() {
    let args: Vec<String> = std::env::args().collect();
    let verif = std::env::var("VERIF_DIR").unwrap_or_else(|_| "/verif".into());
    // shuttle's failure report goes through the panic hook; keep the default hook quiet
    std::panic::set_hook(Box::new(|_| {}));
    match args.get(1).map(|s| s.as_str()) {
        Some("replay") => {
            let path = args.get(2).expect("replay <file>");
            let r: Replay = serde_json::from_str(&std::fs::read_to_string(path).expect("read replay")).expect("parse replay");
            println!("scenario: {}", serde_json::to_string(&r.cfg).unwrap());
            match replay_one(&r.cfg, &r.schedule) {
                Err(m) => {
                    let again = replay_one(&r.cfg, &r.schedule);
                    println!("REPLAYED property=C07 engine=flagsim: {}", first_line(&m));
                    println!("  second replay: {}", if again.as_ref().err().map(|e| first_line(e)) == Some(first_line(&m)) { "identical" } else { "DIFFERENT" });
                    std::process::exit(1);
                }
                Ok(()) => {
                    println!("replay did NOT reproduce a failure");
                    std::process::exit(0);
                }
            }
        }
        Some("check") => {}
        _ => {
            eprintln!("usage: flagsim check --tier quick|thorough [--seed N] [--merge-evidence FILE] | flagsim replay FILE");
            std::process::exit(2);
        }
    }
    let mut tier = std::env::var("VERIF_TIER").unwrap_or_else(|_| "quick".into());
    let mut seed: u64 = std::env::var("VERIF_SEED").ok().and_then(|s| s.parse().ok()).unwrap_or(1);
    let mut merge: Option<String> = None;
    let mut i = 2;
    while i < args.len() {
        match args[i].as_str() {
            "--tier" => {
                tier = args[i + 1].clone();
                i += 1;
            }
            "--seed" => {
                seed = args[i + 1].parse().expect("seed");
                i += 1;
            }
            "--merge-evidence" => {
                merge = Some(args[i + 1].clone());
                i += 1;
            }
            _ => {}
        }
        i += 1;
    }
    // quick: 16 workers x 150 configurations x (120 random + 60 PCT schedules); thorough: 16 x 4000 x (300 + 150)
    let (cfgs_per_worker, n_rand, n_pct) = if tier == "thorough" { (4000usize, 300usize, 150usize) } else { (150, 120, 60) };
    let workers = 16usize;
    let t0 = Instant::now();
    let scratch_root = std::env::temp_dir().join(format!("flagsim-{}", std::process::id()));
    let mut joins = Vec::new();
    for wk in 0..workers {
        let scratch = scratch_root.join(format!("w{wk}"));
        joins.push(
            std::thread::Builder::new()
                .stack_size(64 << 20)
                .spawn(move || {
                    let mut rng = Rng(seed.wrapping_mul(0x2545F4914F6CDD1D) ^ (wk as u64) << 32 ^ 0xF1A6);
                    let mut iterations = 0u64;
                    let mut hist: HashSet<u64> = HashSet::new();
                    let mut kinds: std::collections::BTreeMap<String, u64> = Default::default();
                    let mut configs = 0u64;
                    for k in 0..cfgs_per_worker {
                        let cfg = gen_cfg(&mut rng);
                        configs += 1;
                        for w in &cfg.waiters {
                            *kinds.entry(format!("{w:?}")).or_default() += 1;
                        }
                        if cfg.pair {
                            *kinds.entry("pair-of-flags".into()).or_default() += 1;
                        }
                        if cfg.raisers > 1 {
                            *kinds.entry("two-raisers".into()).or_default() += 1;
                        }
                        if cfg.initial {
                            *kinds.entry("initially-raised".into()).or_default() += 1;
                        }
                        for (pct, n) in [(false, n_rand), (true, n_pct)] {
                            let s = rng.next() ^ k as u64;
                            let o = explore(&cfg, pct, s, n, &scratch);
                            iterations += o.iterations;
                            hist.extend(o.histories);
                            if let Some((sched, msg)) = o.failure {
                                return (iterations, hist, kinds, configs, Some((cfg, pct, sched, msg)));
                            }
                        }
                    }
                    (iterations, hist, kinds, configs, None)
                })
                .unwrap(),
        );
    }
    let mut iterations = 0u64;
    let mut hist: HashSet<u64> = HashSet::new();
    let mut kinds: std::collections::BTreeMap<String, u64> = Default::default();
    let mut configs = 0u64;
    let mut failure = None;
    for j in joins {
        let (it, h, k, c, f) = j.join().expect("worker");
        iterations += it;
        hist.extend(h);
        configs += c;
        for (a, b) in k {
            *kinds.entry(a).or_default() += b;
        }
        if failure.is_none() {
            failure = f;
        }
    }
    let mut violations = 0;
    let mut vmsg = String::new();
    if let Some((cfg, pct, sched, msg)) = failure {
        violations = 1;
        eprintln!("first failure: {} under {} : {}", serde_json::to_string(&cfg).unwrap(), if pct { "pct" } else { "random" }, first_line(&msg));
        // minimise the configuration: smaller configurations that still fail under some schedule
        let scratch = scratch_root.join("min");
        let mut best = (cfg, pct, sched, msg);
        let mut rng = Rng(seed ^ 0xABCDEF);
        'outer: loop {
            for cand in shrink(&best.0) {
                for pct in [false, true] {
                    let o = explore(&cand, pct, rng.next(), 3000, &scratch);
                    if let Some((s, m)) = o.failure {
                        best = (cand, pct, s, m);
                        continue 'outer;
                    }
                }
            }
            break;
        }
        let r = Replay {
            property: "C07".into(),
            engine: "flagsim (shuttle)".into(),
            cfg: best.0.clone(),
            scheduler: if best.1 { "pct(depth 3)".into() } else { "random".into() },
            schedule: best.2.trim().to_string(),
            message: first_line(&best.3),
        };
        let mut h = std::collections::hash_map::DefaultHasher::new();
        r.schedule.hash(&mut h);
        r.cfg.hash(&mut h);
        let dir = format!("{verif}/replays");
        let _ = std::fs::create_dir_all(&dir);
        let replay_path = format!("{dir}/C07-flag-threads-{:016x}.json", h.finish());
        std::fs::write(&replay_path, serde_json::to_string_pretty(&r).unwrap()).expect("write replay");
        // the replay must reproduce, twice
        let a = replay_one(&r.cfg, &r.schedule).err().map(|e| first_line(&e));
        let b = replay_one(&r.cfg, &r.schedule).err().map(|e| first_line(&e));
        vmsg = format!("{} | minimised scenario {} | replayed twice: {}", r.message, serde_json::to_string(&r.cfg).unwrap(), if a.is_some() && a == b { "identical" } else { "NOT reproduced" });
        println!("VIOLATION property=C07 replay={replay_path}");
        println!("  oracle=flag-under-threads {vmsg}");
    }
    let _ = std::fs::remove_dir_all(&scratch_root);
    let secs = t0.elapsed().as_secs_f64();
    println!(
        "C07 {tier} (flagsim): {iterations} schedules of {configs} scenarios in {secs:.1}s, {} distinct event orders, {violations} violations",
        hist.len()
    );
    if let Some(path) = merge {
        let mut ev: serde_json::Value = std::fs::read_to_string(&path).ok().and_then(|t| serde_json::from_str(&t).ok()).unwrap_or_else(|| serde_json::json!({}));
        let section = serde_json::json!({
            "engine": "flagsim: crates/supervisor/src/flag.rs from /repo's working tree with std::sync replaced by shuttle::sync (build.rs), real threads under shuttle's seeded random and PCT(depth 3) schedulers",
            "what_runs_real": ["Flag: new / clone / raise / raised / poll / drop"],
            "what_is_stub": ["Ticket::poll is represented by an 8-line copy polling its two flags in place (messages.rs drags in the whole control enum)", "memory model: shuttle is sequentially consistent, the Relaxed orderings in flag.rs are not exercised as such (the Mutex around the waker list is what orders them)"],
            "seed": seed,
            "schedules_run": iterations,
            "scenarios": configs,
            "distinct_event_orders": hist.len(),
            "schedules_per_hour": (iterations as f64 / secs * 3600.0) as u64,
            "scenario_features_drawn": kinds,
            "violations": violations,
            "violation": vmsg,
            "wall_s": secs,
        });
        ev["coverage"]["threads_engine"] = section;
        if violations > 0 {
            ev["violations"] = serde_json::json!(ev["violations"].as_u64().unwrap_or(0) + 1);
        }
        std::fs::write(&path, serde_json::to_string_pretty(&ev).unwrap()).expect("write evidence");
    }
    std::process::exit(if violations > 0 { 1 } else { 0 });
}
