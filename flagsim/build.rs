//! Brings /repo/crates/supervisor/src/flag.rs (the one piece of hand-written synchronisation behind
//! tickets) under shuttle's scheduler without editing it: the file is copied from /repo's *current
//! working tree* with every `std::` path redirected to `crate::shim_std::`, a facade that is std
//! except for `sync`, which is shuttle's. Nothing else is changed.
use std::{env, fs, path::PathBuf};

fn main() {
    let src = env::var("FLAGSIM_SRC").unwrap_or_else(|_| "/repo/crates/supervisor/src/flag.rs".into());
    println!("cargo:rerun-if-changed={src}");
    println!("cargo:rerun-if-env-changed=FLAGSIM_SRC");
    let text = fs::read_to_string(&src).expect("read flag.rs from /repo");
    let mut out = String::new();
    for line in text.lines() {
        // inner doc comments are not allowed in an include!d module body
        let line = if let Some(rest) = line.strip_prefix("//!") { format!("//{rest}") } else { line.to_string() };
        out.push_str(&line.replace("std::", "crate::shim_std::"));
        out.push('\n');
    }
    let dst = PathBuf::from(env::var("OUT_DIR").unwrap()).join("flag.rs");
    fs::write(dst, out).unwrap();
}
